#!/usr/bin/env python3
"""Regenerates MANIFEST.json from the table below (keeps it valid at all times)."""
import json, os
HERE = os.path.dirname(os.path.abspath(__file__))
BASE = "cd /repo && /venv/bin/python -m pytest -ra -q -p no:cacheprovider --timeout=900 --continue-on-collection-errors"
CHECKS = json.load(open(os.path.join(HERE, 'checks_table.json')))
m = {
 "version": 1,
 "setup_cmd": "/venv/bin/python -m pip install -q --no-index --find-links /opt/veriftools/wheels --target /verif/.deps icontract || true",
 "hooks": {"guard": "KINGDON_VERIF", "enable": "pure Python: checks import kingdon from /repo's working tree in fresh subprocesses (PYTHONPATH=/repo, KINGDON_VERIF=1); no source hooks exist, all monitors are installed from outside",
           "baseline_off_cmd": BASE, "source_commits": [], "add_only": True},
 "engines": [{"name": "kvm", "path": "/verif/kvm", "serves_properties": [c["property_id"] for c in CHECKS["checks"]],
              "kind_free_text": "runtime monitors over executions of the real code: reference-model differential, generic-coefficient (polynomial) execution of generated functions, history/trace checkers, audit-hook and wrapper event counters"}],
 "checks": [], "notes": CHECKS.get("notes", ""), "not_applicable": CHECKS.get("not_applicable", []),
}
for c in CHECKS["checks"]:
    pid = c["property_id"]
    m["checks"].append({
        "property_id": pid,
        "quick_cmd": f"./check {pid} --tier quick",
        "thorough_cmd": f"./check {pid} --tier thorough",
        "evidence_file": f"/verif/evidence/{pid}.json",
        "replay_cmd_template": f"./check {pid} --replay {{path}}",
        "engine": "kvm",
        "level_claimed": {"category": "exploration", "text": c["text"], "design_ref": c["design_ref"]},
        "level_note": c["note"],
        "technique": c["technique"],
    })
json.dump(m, open(os.path.join(HERE, 'MANIFEST.json'), 'w'), indent=1)
print('checks:', len(m['checks']), 'not_applicable:', len(m['not_applicable']))

"""Operator table: how to call each kingdon operator and what the reference says.

All reference functions work in *reference coordinates* (kvm/iso.py) on
{refmask: coeff} dictionaries.
"""
from fractions import Fraction as Fr

from .ring import FreePoly
from .compare import mv_dict, elem_diff, show_elem
from . import gen

BINARY = ['gp', 'sw', 'cp', 'acp', 'ip', 'sp', 'lc', 'rc', 'op', 'rp', 'proj', 'add', 'sub', 'div']
UNARY = ['inv', 'neg', 'reverse', 'involute', 'conjugate', 'sqrt', 'polarity', 'unpolarity', 'hodge', 'unhodge',
         'normsq', 'outerexp', 'outersin', 'outercos', 'outertan']
ELEMENTARY_BIN = ['gp', 'cp', 'acp', 'ip', 'sp', 'lc', 'rc', 'op', 'rp', 'add', 'sub']
ELEMENTARY_UN = ['neg', 'reverse', 'involute', 'conjugate', 'hodge', 'unhodge']
COMPOSITE_BIN = ['sw', 'proj', 'div']
COMPOSITE_UN = ['inv', 'normsq', 'outerexp', 'outersin', 'outercos', 'outertan', 'polarity', 'unpolarity', 'sqrt']
# operators whose generated code only uses + - * and integer powers (FreePoly-executable)
POLYNOMIAL = set(ELEMENTARY_BIN + ELEMENTARY_UN + ['sw', 'proj', 'normsq', 'outerexp', 'outersin', 'outercos',
                                                   'polarity', 'unpolarity'])
RATIONAL = {'inv', 'div', 'outertan'}


class NoReference(Exception):
    """The reference has no value here (singular operand, degenerate metric...)."""


def ref_apply(iso, op, X, Y=None):
    R = iso.ref
    ps = iso.pss_sign
    if op == 'gp':
        return R.gp(X, Y)
    if op in ('op', 'ip', 'lc', 'rc', 'sp', 'cp', 'acp', 'add', 'sub', 'sw', 'proj'):
        return getattr(R, op)(X, Y)
    if op == 'rp':
        return R.rp(X, Y, ps)
    if op == 'div':
        yi = R.inverse(Y)
        if yi is None:
            raise NoReference('singular divisor')
        return R.gp(X, yi)
    if op in ('neg', 'reverse', 'involute', 'conjugate', 'normsq', 'outerexp', 'outersin', 'outercos'):
        return getattr(R, op)(X)
    if op in ('hodge', 'unhodge', 'polarity', 'unpolarity'):
        if op in ('polarity', 'unpolarity') and R.pss_sq() == 0:
            raise NoReference('degenerate metric')
        return getattr(R, op)(X, ps)
    if op == 'inv':
        xi = R.inverse(X)
        if xi is None:
            raise NoReference('singular')
        return xi
    if op == 'outertan':
        c = R.inverse(R.outercos(X))
        if c is None:
            raise NoReference('singular outercos')
        return R.gp(R.outersin(X), c)
    raise KeyError(op)


INFIX_BIN = {'gp': '*', 'sw': '>>', 'ip': '|', 'op': '^', 'rp': '&', 'proj': '@', 'add': '+', 'sub': '-', 'div': '/'}
INFIX_UN = {'neg': lambda x: -x, 'reverse': lambda x: ~x}
_FORM = [0]
FORMS_USED = {}


def call_op(alg, op, *mvs, form=None):
    """Call an operator through one of its public spellings - alg.op(x, y), x.op(y) or the infix form - cycling between
    them, so that a regression in only one of the entry points (e.g. a fast path in a MultiVector method) is exercised too."""
    import operator as _o
    if form is None:
        _FORM[0] += 1
        form = ('alg', 'method', 'infix')[_FORM[0] % 3]
    if form == 'infix':
        if len(mvs) == 2 and op in INFIX_BIN:
            FORMS_USED['infix'] = FORMS_USED.get('infix', 0) + 1
            f = {'*': _o.mul, '>>': _o.rshift, '|': _o.or_, '^': _o.xor, '&': _o.and_, '@': _o.matmul, '+': _o.add, '-': _o.sub,
                 '/': _o.truediv}[INFIX_BIN[op]]
            return f(*mvs)
        if len(mvs) == 1 and op in INFIX_UN:
            FORMS_USED['infix'] = FORMS_USED.get('infix', 0) + 1
            return INFIX_UN[op](mvs[0])
        form = 'method'
    if form == 'method' and hasattr(type(mvs[0]), op):
        FORMS_USED['method'] = FORMS_USED.get('method', 0) + 1
        return getattr(mvs[0], op)(*mvs[1:])
    FORMS_USED['alg'] = FORMS_USED.get('alg', 0) + 1
    return getattr(alg, op)(*mvs)


def generic_mv(alg, keys, prefix):
    """Multivector whose coefficient on key k is the indeterminate <prefix><k> (independent of storage order)."""
    return gen.mv_from(alg, keys, [FreePoly.var(f'{prefix}{k}') for k in keys])


def value_mv(alg, keys, valmap):
    return gen.mv_from(alg, keys, [valmap[k] for k in keys])


def has_dupes(keys):
    return len(set(keys)) != len(keys)


def check_generic(ctx, alg, iso, cfg, op, keysets, case_id, timeout=20, extra=None, total=False):
    """Execute the real compiled function of `op` on FreePoly indeterminates and compare with the reference.
    Returns (status, result_mv | None).  status in ok|violation|raised|timeout."""
    mvs = [generic_mv(alg, ks, p) for ks, p in zip(keysets, 'ab')]
    st, r = ctx.guarded(timeout, call_op, alg, op, *mvs)
    if st == 'timeout':
        ctx.count('case_timeouts')
        return 'timeout', None
    if st == 'exc':
        ctx.note_raised(r, op)
        if total:
            # total=True: the operator is defined for every pair of multivectors of the algebra (products, sums, involutions);
            # "equals the reference for all operands" cannot hold where it returns nothing
            ctx.violation('operator raised on valid operands', list(case_id) + ['raised'], config=cfg, op=op, keys_in=[list(k) for k in keysets],
                          error=f'{type(r).__name__}: {str(r)[:160]}', **(extra or {}))
        return 'raised', r
    refs = [iso.mv_to_ref(m) for m in mvs]
    try:
        exp = ref_apply(iso, op, *refs)
    except NoReference:
        return 'noref', r
    kout = tuple(r.keys())
    problems = []
    if has_dupes(kout):
        problems.append('duplicate keys in result')
    if len(kout) != len(r.values()):
        problems.append('result has %d keys but %d values' % (len(kout), len(r.values())))
    got = iso.to_ref(zip(kout, r.values()))
    bad = elem_diff(got, exp)
    if bad:
        problems.append('coefficients differ on reference blades %s' % bad[:6])
    if problems:
        ctx.violation('wrong-element', case_id, config=cfg, op=op, keys_in=[list(k) for k in keysets],
                      keys_out=list(kout), problems=problems,
                      got=show_elem({k: got.get(k) for k in bad[:4]}), expected=show_elem({k: exp.get(k, 0) for k in bad[:4]}),
                      **(extra or {}))
        return 'violation', r
    return 'ok', r


def rational_operands(rng, keysets, kind='frac'):
    out = []
    for ks in keysets:
        if kind == 'int':
            out.append({k: gen.small_int(rng) for k in ks})
        else:
            out.append({k: gen.small_frac(rng) for k in ks})
    return out


def check_at_points(ctx, alg, iso, cfg, op, keysets, case_id, npoints=3, timeout=20, kind='frac', extra=None):
    """Operators whose generated code divides: compare at random rational points (exact)."""
    rng = ctx.rng
    status = 'ok'
    decided = 0
    for _ in range(npoints):
        valmaps = rational_operands(rng, keysets, kind)
        mvs = [value_mv(alg, ks, vm) for ks, vm in zip(keysets, valmaps)]
        refs = [iso.mv_to_ref(m) for m in mvs]
        try:
            exp = ref_apply(iso, op, *refs)
            singular = False
        except NoReference:
            exp, singular = None, True
        st, r = ctx.guarded(timeout, call_op, alg, op, *mvs)
        if st == 'timeout':
            ctx.count('case_timeouts')
            return 'timeout', decided
        if st == 'exc':
            ctx.note_raised(r, op)
            if isinstance(r, ZeroDivisionError) and not singular and op in ('inv', 'div', 'outertan'):
                ctx.violation('zerodivision-on-invertible', case_id, config=cfg, op=op,
                              keys_in=[list(k) for k in keysets], values=valmaps, **(extra or {}))
                return 'violation', decided
            status = 'raised'
            continue
        if singular:
            ctx.violation('value-for-singular-operand', case_id, config=cfg, op=op,
                          keys_in=[list(k) for k in keysets], values=valmaps,
                          got=show_elem(mv_dict(r)), **(extra or {}))
            return 'violation', decided
        got = iso.to_ref(zip(r.keys(), r.values()))
        bad = elem_diff(got, exp)
        decided += 1
        if bad:
            ctx.violation('wrong-element', case_id, config=cfg, op=op, keys_in=[list(k) for k in keysets],
                          keys_out=list(r.keys()), values=valmaps,
                          got=show_elem({k: got.get(k) for k in bad[:4]}),
                          expected=show_elem({k: exp.get(k, 0) for k in bad[:4]}), **(extra or {}))
            return 'violation', decided
    return status, decided


# ---------------------------------------------------------------------------------
# concrete coefficient values the indeterminates of check_generic can never take: 0, +-1, signed zeros, booleans, complex numbers,
# numpy scalar types, integers beyond 2^64.  A shortcut keyed on a coefficient *value* or *type* (in the multivector methods, the
# operator dictionaries or the generated code) is only visible on such operands.

SPECIAL_KINDS = ['units', 'zeros', 'complex', 'npscalar', 'bigint', 'bool', 'exactmix']


def special_values(rng, keys, kind):
    import numpy as np
    if kind == 'units':
        pool = [1, -1, 1, -1, 0, 1.0, -1.0]
    elif kind == 'zeros':
        pool = [0, 0.0, -0.0, 2, -3, 0.5]
    elif kind == 'complex':
        pool = [1 + 2j, -1j, 0.5 - 0.5j, 2 + 0j, 3, -1.5, 1j]
    elif kind == 'npscalar':
        pool = [np.int64(3), np.int64(-2), np.float32(0.5), np.float32(-1.25), np.float64(2.0), np.int32(1), np.int64(0), np.float64(-1.0)]
    elif kind == 'bigint':
        pool = [2 ** 70 + 3, -(2 ** 65) - 1, 1, -1, 7, 10 ** 20]
    elif kind == 'bool':
        pool = [True, False, True, 2, -1]
    else:
        # exact types only (mixing them with floats of very different magnitude would test float cancellation, not kingdon)
        pool = [0, 1, -1, Fr(1, 3), Fr(-2, 1), Fr(5, 2), True, 4, -7]
    return {k: rng.choice(pool) for k in keys}


EXACT_OPS = POLYNOMIAL - {'cp', 'acp', 'outerexp', 'outersin', 'outercos'}


def _exactly_equal(a, b):
    try:
        return bool(a == b)
    except Exception:
        return False


def _finite(v):
    try:
        c = complex(v)
    except Exception:
        return True
    return c == c and abs(c) != float('inf')


def check_special_values(ctx, alg, iso, cfg, op, keysets, case_id, timeout=20, kinds=None):
    """Call `op` on operands holding special concrete values and compare with the reference evaluated on the same values."""
    from .compare import is_exact
    rng = ctx.rng
    kind = rng.choice(kinds or SPECIAL_KINDS)
    valmaps = [special_values(rng, ks, kind) for ks in keysets]
    mvs = [value_mv(alg, ks, vm) for ks, vm in zip(keysets, valmaps)]
    try:
        refs = [iso.mv_to_ref(m) for m in mvs]
        exp = ref_apply(iso, op, *refs)
    except NoReference:
        return 'noref'
    except Exception as e:
        ctx.note_raised(e, 'reference-special-' + kind)      # the reference itself cannot compute with these types: no verdict
        return 'noref'
    st, r = ctx.guarded(timeout, call_op, alg, op, *mvs)
    if st == 'timeout':
        ctx.count('case_timeouts')
        return 'timeout'
    if st == 'exc':
        ctx.note_raised(r, op + '-special-' + kind)
        return 'raised'
    if not hasattr(r, 'keys'):
        got = {0: r}
    else:
        got = iso.to_ref(zip(r.keys(), r.values()))
    if not all(_finite(v) for v in list(got.values()) + list(exp.values())):
        ctx.count('special_values_nonfinite_skipped')
        return 'skip'
    exact_in = kind in ('bigint', 'exactmix', 'bool')
    if exact_in and op in EXACT_OPS:
        # these operators need nothing but sums and products of coefficients with integer signs: on exact operands (ints beyond 2^53,
        # Fractions) the result must EQUAL the exact reference value under Python's exact number comparison -- a float that merely
        # approximates it (a stray float constant in generated code, a detour through a float inverse) is a different number
        ctx.count('special_value_executions')
        ctx.count('special_values_' + kind)
        ctx.count('special_values_compared_exactly')
        bad = sorted(k for k in set(got) | set(exp) if not _exactly_equal(got.get(k, 0), exp.get(k, 0)))
    else:
        if kind == 'bigint' and not all(is_exact(v) for v in got.values()):
            # cp/acp/outerexp legitimately contain float constants (1/2, 1/k!): integers beyond 2^53 then lose digits; not judged
            ctx.count('special_values_bigint_float_result_skipped')
            return 'skip'
        ctx.count('special_value_executions')
        ctx.count('special_values_' + kind)
        bad = elem_diff(got, exp, tol=1e-6 if kind == 'npscalar' else 1e-9)
    if bad:
        ctx.violation('wrong-element on special coefficient values', list(case_id) + ['special', kind, [[repr(vm[k]) for k in ks] for ks, vm in zip(keysets, valmaps)]],
                      config=cfg, op=op, value_kind=kind,
                      operands=[{alg.bin2canon[k]: repr(vm[k]) for k in ks} for ks, vm in zip(keysets, valmaps)],
                      got=show_elem({k: got.get(k) for k in bad[:4]}), expected=show_elem({k: exp.get(k, 0) for k in bad[:4]}))
        return 'violation'
    return 'ok'


# ---------------------------------------------------------------------------------
# a multivector is a mutable container (x[...] = ..., a widget drag writing into its values): anything an instance remembers about
# itself (cached_property, memo attribute) must not survive an in-place coefficient update.

def check_inplace_staleness(ctx, alg, cfg, call, keys, case_id, label, other_keys=None, timeout=20):
    """call(x[, y]) -> multivector, through an instance method of x.  Evaluate, update coefficients of the same object x in place,
    evaluate again, and compare with the same call on a fresh multivector holding the updated coefficients."""
    import numpy as np
    from kingdon.multivector import MultiVector
    rng = ctx.rng
    if not keys:
        return 'skip'
    vals = [gen.dyadic(rng) or 1.0 for _ in keys]
    backing = rng.choice(['list', 'ndarray'])
    x = MultiVector.fromkeysvalues(alg, tuple(keys), np.array(vals, dtype=float) if backing == 'ndarray' else list(vals))
    args = []
    if other_keys is not None:
        args = [value_mv(alg, other_keys, {k: gen.dyadic(rng) or 1.0 for k in other_keys})]
    st, first = ctx.guarded(timeout, call, x, *args)
    if st != 'ok':
        return 'skip'
    container = x.values()
    js = rng.sample(range(len(keys)), rng.randint(1, len(keys)))
    newvals = list(vals)
    for j in js:
        newvals[j] = vals[j] * rng.choice((2.0, -3.0, 0.5)) + rng.choice((0.0, 1.0))
        container[j] = newvals[j]
    fresh = MultiVector.fromkeysvalues(alg, tuple(keys), np.array(newvals, dtype=float) if backing == 'ndarray' else list(newvals))
    st2, second = ctx.guarded(timeout, call, x, *args)
    st3, want = ctx.guarded(timeout, call, fresh, *args)
    if st2 != 'ok' or st3 != 'ok':
        if (st2 == 'exc') != (st3 == 'exc'):
            ctx.note_raised(second if st2 == 'exc' else want, 'inplace-' + label)
        return 'skip'
    ctx.count('inplace_update_reevaluations')
    g, w = (mv_dict(second) if hasattr(second, 'keys') else {0: second}), (mv_dict(want) if hasattr(want, 'keys') else {0: want})
    bad = elem_diff(g, w)
    if bad:
        ctx.violation(f'{label} on an object whose coefficients were updated in place differs from {label} on a fresh multivector with the same coefficients (stale value)',
                      list(case_id) + ['inplace', label, backing], config=cfg, keys=list(keys), backing=backing,
                      before=vals, after=newvals, on_updated_object=show_elem({k: g.get(k) for k in bad[:4]}),
                      on_fresh_object=show_elem({k: w.get(k) for k in bad[:4]}))
        return 'violation'
    return 'ok'


# ---------------------------------------------------------------------------------
# sympy expression coefficients, including ones that are zero only after expansion ("hidden zeros"): the symbolic call path filters
# vanishing coefficients out of its result; what remains must still sit on the right blades.

def sympy_values(rng, keys):
    import sympy
    x, y = sympy.symbols('x y')
    pool = [x, y, x + 1, x - 1, 1 - x ** 2, x ** 2 - 1, (x + 1) ** 2, x ** 2 + 2 * x + 1, -(x + 1) ** 2, sympy.Integer(1), sympy.Integer(-1),
            x * y, -x * y, (x + y) * (x - y), y ** 2 - x ** 2, sympy.Integer(2)]
    hz = [(x + 1) ** 2 - x ** 2 - 2 * x - 1, (x + y) * (x - y) - x ** 2 + y ** 2]      # not zero structurally, zero after expansion
    mode = rng.random()
    if mode < 0.35:
        pool = [x + 1, x - 1, x ** 2 - 1, 1 - x ** 2, sympy.Integer(1), sympy.Integer(-1)]       # products of these cancel against each other
    elif mode < 0.7:
        pool = pool + hz * 3
    return {k: rng.choice(pool) for k in keys}


def check_sympy_values(ctx, alg, iso, cfg, op, keysets, case_id, timeout=30):
    rng = ctx.rng
    valmaps = [sympy_values(rng, ks) for ks in keysets]
    mvs = [value_mv(alg, ks, vm) for ks, vm in zip(keysets, valmaps)]
    try:
        refs = [iso.mv_to_ref(m) for m in mvs]
        exp = ref_apply(iso, op, *refs)
    except NoReference:
        return 'noref'
    st, r = ctx.guarded(timeout, call_op, alg, op, *mvs)
    if st == 'timeout':
        ctx.count('case_timeouts')
        return 'timeout'
    if st == 'exc':
        ctx.note_raised(r, op + '-sympy')
        return 'raised'
    import sympy
    ctx.count('sympy_coefficient_executions')
    got = iso.to_ref(zip(r.keys(), r.values())) if hasattr(r, 'keys') else {0: r}
    hidden = sum(1 for v in exp.values() if getattr(v, 'free_symbols', None) is not None and v != 0 and sympy.expand(v) == 0)
    if hidden:
        ctx.count('sympy_results_with_a_coefficient_vanishing_only_after_expansion')
        if any(getattr(v, 'free_symbols', None) is not None and sympy.expand(v) != 0 for v in exp.values()):
            ctx.count('sympy_results_with_hidden_zero_and_nonzero_coefficients')
    problems = []
    if hasattr(r, 'keys') and has_dupes(tuple(r.keys())):
        problems.append('duplicate keys in result')
    if hasattr(r, 'keys') and len(r.keys()) != len(r.values()):
        problems.append('result has %d keys but %d values' % (len(r.keys()), len(r.values())))
    bad = elem_diff(got, exp)
    if bad or problems:
        ctx.violation('wrong-element on sympy expression coefficients', list(case_id) + ['sympy', [[str(vm[k]) for k in ks] for ks, vm in zip(keysets, valmaps)]],
                      config=cfg, op=op, problems=problems, hidden_zero_coefficients=hidden,
                      operands=[{alg.bin2canon[k]: str(vm[k]) for k in ks} for ks, vm in zip(keysets, valmaps)],
                      got=show_elem({k: got.get(k) for k in bad[:4]}), expected=show_elem({k: exp.get(k, 0) for k in bad[:4]}))
        return 'violation'
    return 'ok'

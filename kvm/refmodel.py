"""Reference Clifford algebra on {bitmask: coeff} dictionaries.

Trusted base of the oracles.  Written from the textbook definition and
deliberately different from kingdon's implementation: blades are bitmasks over
the reference's *own* bit assignment, the canonical orientation of a bitmask is
the ascending-bit product, the sign of E_I E_J is the parity of the number of
pairs (i in I, j in J, i > j) times the metric of the shared generators, and
the graded products select on popcounts of factors and result.
"""
from fractions import Fraction as Fr
from math import factorial


def popcount(x):
    return bin(x).count('1')


class Ref:
    def __init__(self, sig_by_bit):
        self.sig = [int(s) for s in sig_by_bit]
        self.d = len(self.sig)
        self.n = 2 ** self.d
        self.full = self.n - 1
        self._bs = {}

    # -- basis blade sign ---------------------------------------------------
    def bsign(self, I, J):
        try:
            return self._bs[I, J]
        except KeyError:
            pass
        a = I >> 1
        s = 0
        while a:
            s += popcount(a & J)
            a >>= 1
        sign = -1 if s & 1 else 1
        c = I & J
        b = 0
        while c:
            if c & 1:
                sign *= self.sig[b]
            c >>= 1
            b += 1
        self._bs[I, J] = sign
        return sign

    # -- bilinear products --------------------------------------------------
    def gp(self, x, y, keep=None):
        r = {}
        for I, a in x.items():
            for J, b in y.items():
                s = self.bsign(I, J)
                if not s:
                    continue
                K = I ^ J
                if keep is not None and not keep(I, J, K):
                    continue
                t = a * b if s > 0 else -(a * b)
                r[K] = (r[K] + t) if K in r else t
        return r

    def op(self, x, y):
        return self.gp(x, y, lambda I, J, K: popcount(K) == popcount(I) + popcount(J))

    def ip(self, x, y):
        return self.gp(x, y, lambda I, J, K: popcount(K) == abs(popcount(I) - popcount(J)))

    def lc(self, x, y):
        return self.gp(x, y, lambda I, J, K: popcount(K) == popcount(J) - popcount(I))

    def rc(self, x, y):
        return self.gp(x, y, lambda I, J, K: popcount(K) == popcount(I) - popcount(J))

    def sp(self, x, y):
        return self.gp(x, y, lambda I, J, K: popcount(K) == 0)

    def cp(self, x, y):
        return self.scale(self.sub(self.gp(x, y), self.gp(y, x)), Fr(1, 2))

    def acp(self, x, y):
        return self.scale(self.add(self.gp(x, y), self.gp(y, x)), Fr(1, 2))

    # -- linear -------------------------------------------------------------
    @staticmethod
    def add(x, y):
        r = dict(x)
        for k, v in y.items():
            r[k] = (r[k] + v) if k in r else v
        return r

    @staticmethod
    def scale(x, c):
        return {k: v * c for k, v in x.items()}

    @staticmethod
    def neg(x):
        return {k: -v for k, v in x.items()}

    def sub(self, x, y):
        return self.add(x, self.neg(y))

    @staticmethod
    def grade(x, *g):
        return {k: v for k, v in x.items() if popcount(k) in g}

    # -- involutions: signs from the closed formulas, not from popcount mod 4 -
    @staticmethod
    def reverse(x):
        return {k: (-v if ((popcount(k) * (popcount(k) - 1)) // 2) % 2 else v) for k, v in x.items()}

    @staticmethod
    def involute(x):
        return {k: (-v if popcount(k) % 2 else v) for k, v in x.items()}

    @staticmethod
    def conjugate(x):
        return {k: (-v if ((popcount(k) * (popcount(k) + 1)) // 2) % 2 else v) for k, v in x.items()}

    # -- composites ---------------------------------------------------------
    def sw(self, x, y):
        return self.gp(self.gp(x, y), self.reverse(x))

    def proj(self, x, y):
        return self.gp(self.ip(x, y), self.reverse(y))

    def normsq(self, x):
        return self.gp(x, self.reverse(x))

    # -- duality (pss_sign = orientation of the algebra's pseudoscalar) -----
    def hodge(self, x, pss_sign=1):
        # B_k ^ (t B_k') = pss_sign * B_full
        r = {}
        for k, v in x.items():
            kc = self.full ^ k
            t = self._opsign(k, kc) * pss_sign
            r[kc] = v if t > 0 else -v
        return r

    def unhodge(self, x, pss_sign=1):
        # inverse of hodge: hodge(B_k) = t B_k'  =>  unhodge(B_k') = t B_k
        r = {}
        for kc, v in x.items():
            k = self.full ^ kc
            t = self._opsign(k, kc) * pss_sign
            r[k] = v if t > 0 else -v
        return r

    def _opsign(self, I, J):
        # sign of the wedge of disjoint blades (no metric involved)
        a = I >> 1
        s = 0
        while a:
            s += popcount(a & J)
            a >>= 1
        return -1 if s & 1 else 1

    def rp(self, x, y, pss_sign=1):
        return self.unhodge(self.op(self.hodge(x, pss_sign), self.hodge(y, pss_sign)), pss_sign)

    def pss(self, pss_sign=1):
        return {self.full: pss_sign}

    def pss_sq(self):
        return self.bsign(self.full, self.full)

    def polarity(self, x, pss_sign=1):
        s = self.pss_sq()
        if s == 0:
            raise ZeroDivisionError
        # pss^-1 = pss / pss^2
        return self.gp(x, {self.full: pss_sign * s})

    def unpolarity(self, x, pss_sign=1):
        return self.gp(x, {self.full: pss_sign})

    # -- linear algebra: left multiplication matrix, exact inverse -----------
    def lmat(self, x):
        """M[K][J] = coefficient of B_K in x * B_J."""
        n = self.n
        M = [[0] * n for _ in range(n)]
        for I, a in x.items():
            for J in range(n):
                s = self.bsign(I, J)
                if s:
                    M[I ^ J][J] += s * a
        return M

    def inverse(self, x):
        """Exact inverse over Fractions via Gaussian elimination on x * y = 1.
        Returns dict or None if singular."""
        n = self.n
        M = [[Fr(v) for v in row] + [Fr(1 if i == 0 else 0)] for i, row in enumerate(self.lmat(x))]
        r = 0
        piv = []
        for c in range(n):
            p = None
            for i in range(r, n):
                if M[i][c] != 0:
                    p = i
                    break
            if p is None:
                continue
            M[r], M[p] = M[p], M[r]
            pv = M[r][c]
            M[r] = [v / pv for v in M[r]]
            for i in range(n):
                if i != r and M[i][c] != 0:
                    f = M[i][c]
                    M[i] = [a - f * b for a, b in zip(M[i], M[r])]
            piv.append(c)
            r += 1
        if r < n:
            return None
        return {c: M[i][n] for i, c in enumerate(piv) if M[i][n] != 0}

    def is_singular(self, x):
        return self.inverse(x) is None

    # -- series -------------------------------------------------------------
    def outerexp_terms(self, x):
        terms = [{0: 1}, dict(x)]
        k = 2
        while k <= self.d:
            t = self.scale(self.op(terms[-1], x), Fr(1, k))
            t = {a: b for a, b in t.items() if not _is_zero(b)}
            if not t:
                break
            terms.append(t)
            k += 1
        return terms

    def outerexp(self, x):
        r = {}
        for t in self.outerexp_terms(x):
            r = self.add(r, t)
        return r

    def outersin(self, x):
        r = {}
        for t in self.outerexp_terms(x)[1::2]:
            r = self.add(r, t)
        return r

    def outercos(self, x):
        r = {}
        for t in self.outerexp_terms(x)[0::2]:
            r = self.add(r, t)
        return r

    def exp_series(self, x, nterms=60, tol=1e-17):
        """Power series sum x^k / k! on float/complex coefficients."""
        r = {0: 1.0}
        term = {0: 1.0}
        for k in range(1, nterms):
            term = self.scale(self.gp(term, x), 1.0 / k)
            r = self.add(r, term)
            if all(abs(v) < tol for v in term.values()):
                break
        return r

    def power(self, x, n):
        r = {0: 1}
        for _ in range(n):
            r = self.gp(r, x)
        return r


def _is_zero(v):
    try:
        return bool(v == 0)
    except Exception:
        return False


def nz(x):
    return {k: v for k, v in x.items() if not _is_zero(v)}

"""Known-findings classifiers: each predicate looks at a violation witness and
answers "is this that mechanism?".  Keyed by mechanism, never by seed, case hash
or random values.  Entries live in /verif/known_findings.json (committed, never
written at run time)."""


def c11_symbolic_sqrt_family(w):
    """register(symbolic=True) of a program using sqrt()/norm()/normalized()/**0.5 raises TypeError out of power_supply."""
    prog = w.get('program') or {}
    return (w.get('kind') == 'registered function raises where the plain function returns'
            and w.get('mode') == 'symbolic'
            and w.get('exc_type') == 'TypeError'
            and str(w.get('exc_where') or '').endswith(':power_supply')
            and 'sqrtfam' in (prog.get('feats') or []))


def c11_symbolic_sqrt_of_zero(w):
    """register(symbolic=True): the argument of sqrt()/norm()/normalized() simplifies to identically zero; codegen_sqrt then
    divides by the zero root while generating and prints sympy nan/zoo into the source: NameError at call time."""
    prog = w.get('program') or {}
    out = str(w.get('registered_outcome') or '')
    return (w.get('kind') == 'registered function raises where the plain function returns'
            and w.get('mode') == 'symbolic'
            and w.get('exc_type') == 'NameError'
            and ("name 'nan'" in out or "name 'zoo'" in out)
            and 'sqrtfam' in (prog.get('feats') or []))


def c07_iterative_inverse_cancellation(w):
    """d >= 6: the generated inverse is the right rational function (exact with 400-bit coefficients) but loses up to ~1e-2 in double
    precision because expanded degree-2^((d+1)//2) polynomials with float constants cancel catastrophically."""
    return (w.get('kind') == 'inverse inaccurate in double precision (cancellation), exact in high precision'
            and w.get('op') == 'inv' and int(w.get('d') or 0) >= 6 and w.get('high_precision_recheck') == 'exact-in-high-precision')


def c16_constant_coefficient_not_indexable(w):
    """An operator on array-valued multivectors returns a result in which an input-independent coefficient (the scalar 1 of
    outerexp / outercos, ...) is a plain Python number next to array-valued ones; indexing that result then raises TypeError
    ('int' object is not subscriptable) although op(X[idx]) works."""
    return (w.get('kind') == 'op(X, Y)[idx] raises although op(X, Y) and op(X[idx], Y[idx]) succeed'
            and w.get('exc_type') == 'TypeError' and 'not subscriptable' in str(w.get('error'))
            and bool(w.get('result_blades_with_a_plain_number_coefficient'))
            and len(w.get('result_blades_with_a_plain_number_coefficient')) < len(w.get('result_blades') or []))


def c11_multivector_constant_truncated(w):
    """alg.register(f) where f uses a MultiVector that is not an argument (a constant of the program): the tape recorder writes
    str(constant) into the generated source, and MultiVector.__str__ prints floats with 3 significant digits - the compiled function
    computes with 0.123 instead of 0.123456789 (a non-scalar constant does not even compile)."""
    prog = w.get('program') or {}
    return (w.get('kind') == 'registered function returns a different value'
            and w.get('mode') == 'numeric'
            and 'mv-constant' in (prog.get('feats') or []))


def c16_ndarray_separated_advanced_indices(w):
    """An ndarray-backed array-valued multivector indexed with two advanced indices (list / int) separated by a slice:
    MultiVector.__getitem__ indexes the whole (keys, ...) array at once with (slice(None), *item), and numpy then moves the broadcast
    axis of the advanced indices in front of the key axis, so coefficients of different blades get mixed."""
    import re
    idx = str(w.get('index') or '')
    m = re.match(r"^\((\[[0-9, ]+\]|\d+), slice\(None, None, None\), (\[[0-9, ]+\]|\d+)\)$", idx)
    return (w.get('kind') in ('X[idx] does not hold exactly the addressed entries of every coefficient', 'op(X, Y)[idx] != op(X[idx], Y[idx])')
            and bool(m) and ('[' in m.group(1) or '[' in m.group(2))
            and 'ndarray' in (w.get('container'), w.get('container_y')))

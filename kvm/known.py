"""Known-findings classifiers: each predicate looks at a violation witness and
answers "is this that mechanism?".  Keyed by mechanism, never by seed, case hash
or random values.  Entries live in /verif/known_findings.json (committed, never
written at run time)."""

"""Key-pattern workloads shared by the operator properties (C02-C08, C13, C14).

A *unit* is a JSON-able dict {cfg, fam, i, n, count, cap, ...}; `iter_patterns`
turns it into tuples of key tuples on a concrete algebra.
"""
import itertools

from . import gen


def units_for(cfg, fam, nslices=1, **kw):
    return [dict(cfg=cfg, fam=fam, i=i, n=nslices, **kw) for i in range(nslices)]


def sibling_units(groups, fam='sparse', **kw):
    """One unit per group of sibling configurations (gen.sibling_sets): every member runs every pattern, member after member."""
    return [dict(cfg=g[0], sibs=list(g[1:]), fam=fam, i=0, n=1, **kw) for g in groups]


def iter_cases(shard, ctx, algs, make_iso, arity=2):
    """(unit, cfg, name, alg, iso, patterns-tuple) for every unit of the shard; a unit with 'sibs' yields each pattern once per member
    algebra, one after the other, all members living in this process at the same time."""
    for unit in shard['units']:
        members = []
        for cfg in [unit['cfg']] + list(unit.get('sibs', [])):
            name = gen.cfg_str(cfg)
            if name not in algs:
                alg = gen.make_or_skip(ctx, cfg)
                if alg is None:
                    continue
                algs[name] = (alg, make_iso(alg))
                ctx.count('algebras')
            members.append((cfg, name) + tuple(algs[name]))
        if not members:
            continue
        pats = iter_patterns(unit, members[0][2], ctx.rng, arity)
        if len(members) == 1:
            cfg, name, alg, iso = members[0]
            for t in pats:
                yield unit, cfg, name, alg, iso, t
        else:
            for t in list(pats):
                for cfg, name, alg, iso in members:
                    ctx.count('sibling_algebra_cases')
                    yield unit, cfg, name, alg, iso, t


def iter_patterns(unit, alg, rng, arity=2):
    canon = tuple(alg.canon2bin.values())
    d = alg.d
    fam = unit['fam']
    i, n = unit.get('i', 0), unit.get('n', 1)
    cap = unit.get('cap', 8)
    if fam == 'exh_ordered':
        subs = gen.ordered_subsets(canon)
        it = itertools.product(subs, repeat=arity)
        for j, t in enumerate(it):
            if j % n == i:
                yield t
    elif fam == 'exh_canon':
        subs = gen.canonical_subsets(canon)
        it = itertools.product(subs, repeat=arity)
        for j, t in enumerate(it):
            if j % n == i:
                yield t
    elif fam == 'exh_canon_sample':
        # a seeded fraction of the exhaustive canonical family
        subs = gen.canonical_subsets(canon)
        frac = unit.get('frac', 0.1)
        for j, t in enumerate(itertools.product(subs, repeat=arity)):
            if j % n == i and rng.random() < frac:
                yield t
    elif fam == 'special':
        dense_c = canon
        dense_b = tuple(range(len(canon)))
        specials = [(), dense_c, dense_b, (0,), (canon[-1],), tuple(reversed(canon))]
        if d >= 1:
            specials.append(gen.grade_block(canon, (1,)))
        if d >= 2:
            specials.append(gen.grade_block(canon, (2,)))
            specials.append(gen.grade_block(canon, (0, 2)))
        specials = [s for s in specials if len(s) <= max(cap, 1) or unit.get('allow_dense')]
        for j, t in enumerate(itertools.product(specials, repeat=arity)):
            if j % n == i:
                yield t
    elif fam == 'gradeblocks':
        blocks = []
        for g in range(d + 1):
            b = gen.grade_block(canon, (g,))
            if len(b) <= cap:
                blocks.append(b)
        for g1, g2 in itertools.combinations(range(d + 1), 2):
            b = gen.grade_block(canon, (g1, g2))
            if len(b) <= cap:
                blocks.append(b)
        ev = tuple(k for k in canon if gen.grade_of(k) % 2 == 0)
        od = tuple(k for k in canon if gen.grade_of(k) % 2 == 1)
        for b in (ev, od):
            if len(b) <= cap:
                blocks.append(b)
        allt = list(itertools.product(blocks, repeat=arity))
        rng.shuffle(allt)
        cnt = unit.get('count', len(allt))
        for j, t in enumerate(allt[:cnt * n]):
            if j % n == i:
                yield t
    elif fam == 'random':
        for _ in range(unit.get('count', 100)):
            yield tuple(gen.random_pattern(rng, canon, d, cap) for _ in range(arity))
    elif fam == 'fresh_vs_fixed':
        # one long-lived operand pattern against many short-lived key tuples of equal length that are built at run time and dropped
        # at once (their memory addresses get reused): results must depend on the keys, not on object identity
        size = unit.get('size', 2)
        fixed = tuple(rng.sample(list(canon), min(len(canon), size)))
        for _ in range(unit.get('count', 100)):
            fresh = tuple(list(rng.sample(list(canon), min(len(canon), size))))
            yield (fresh, fixed) if rng.random() < 0.5 else (fixed, fresh)
            del fresh
    elif fam == 'highgrade':
        # operands drawn from the top grades (d-2 .. d) plus an occasional low blade: exercises grade >= 4 arithmetic (mod-4 sign rules)
        top = [k for k in canon if gen.grade_of(k) >= max(0, d - 2)]
        for _ in range(unit.get('count', 50)):
            t = []
            for _a in range(arity):
                ks = rng.sample(top, min(len(top), rng.randint(1, max(1, cap - 1))))
                if rng.random() < 0.5:
                    ks.append(rng.choice(canon))
                ks = list(dict.fromkeys(ks))
                t.append(tuple(ks))
            yield tuple(t)
    elif fam == 'sparse':
        for _ in range(unit.get('count', 100)):
            t = []
            for _a in range(arity):
                ks = gen.random_subset(rng, canon, cap, unit.get('min_size', 1), canonical=True)
                if rng.random() < unit.get('perm', 0.3):
                    ks = gen.permuted(rng, ks)
                t.append(ks)
            yield tuple(t)
    else:
        raise KeyError(fam)

"""The relabelling map  kingdon algebra <-> reference algebra (the map of C14).

Built from the algebra's *public description* only: `signature`, `start_index`
and the blade names reported by `bin2canon` (i.e. which named blade a key
denotes).  Never from `alg.signs`, and never from kingdon's internal bit
assignment: the reference uses its own bits (generator with index i in the
signature -> bit i - start_index), and a blade named e_ij..k is mapped to the
ordered product of its generators, i.e. to (parity of sorting the spelled
sequence) x (ascending-bit blade).
"""
from .refmodel import Ref


def perm_parity(seq):
    """+1 / -1 parity of the permutation sorting `seq` (distinct entries)."""
    inv = 0
    for i in range(len(seq)):
        for j in range(i + 1, len(seq)):
            if seq[i] > seq[j]:
                inv += 1
    return -1 if inv & 1 else 1


class Iso:
    def __init__(self, alg):
        self.alg = alg
        d = alg.d
        start = alg.start_index
        sig = [int(s) for s in alg.signature]
        assert len(sig) == d
        self.ref = Ref(sig)
        self.key2ref = {}     # kingdon key -> (refmask, orientation)
        self.ref2key = {}     # refmask -> (kingdon key, orientation)
        for k, name in alg.bin2canon.items():
            seq = [int(c, 16) - start for c in name[1:]]
            if not (all(0 <= b < d for b in seq) and len(set(seq)) == len(seq)):
                raise ValueError(f'blade name {name} does not spell distinct generators of a {d}-dimensional algebra with start_index={start}')
            mask = 0
            for b in seq:
                mask |= 1 << b
            o = perm_parity(seq)
            self.key2ref[k] = (mask, o)
            if mask in self.ref2key:
                raise ValueError(f'two keys name the same blade ({name})')
            self.ref2key[mask] = (k, o)
        if len(self.ref2key) != 2 ** d:
            raise ValueError('bin2canon does not name 2^d blades')
        self.pss_sign = self.ref2key[self.ref.full][1]
        self.canon_keys = tuple(alg.canon2bin.values())

    def name_to_ref(self, name):
        """(refmask, sign) of an arbitrary spelling such as 'e31' -- first principles."""
        start = self.alg.start_index
        seq = [int(c, 16) - start for c in name[1:]]
        mask = 0
        for b in seq:
            mask |= 1 << b
        return mask, perm_parity(seq)

    def to_ref(self, items):
        """items: iterable of (key, value) (e.g. mv.items()) -> reference dict."""
        r = {}
        for k, v in items:
            m, o = self.key2ref[k]
            t = v if o > 0 else -v
            r[m] = (r[m] + t) if m in r else t
        return r

    def mv_to_ref(self, mv):
        return self.to_ref(zip(mv.keys(), mv.values()))

    def from_ref(self, x):
        """reference dict -> {kingdon key: value}"""
        r = {}
        for m, v in x.items():
            k, o = self.ref2key[m]
            r[k] = v if o > 0 else -v
        return r

    def keymask(self, k):
        return self.key2ref[k][0]

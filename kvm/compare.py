"""Element equality (DESIGN 2.4): same coefficient on every blade, absent = 0.

Exact when both sides are exact (int, Fraction, exact FreePoly, sympy after
expand/cancel); tolerant otherwise (generated code prints rationals as 1/2, so
exact inputs can legitimately give floats).
"""
from fractions import Fraction as Fr
import numbers

from .ring import FreePoly

TOL = 1e-9


def _is_sympy(v):
    return type(v).__module__.startswith('sympy')


def _is_array(v):
    return hasattr(v, 'shape') and hasattr(v, 'dtype') and getattr(v, 'shape', ()) != ()


def is_exact(v):
    if isinstance(v, bool):
        return True
    if isinstance(v, (int, Fr)):
        return True
    if isinstance(v, FreePoly):
        return not v.inexact
    return False


def coef_is_zero(v):
    if isinstance(v, FreePoly):
        if v.inexact:
            return all(abs(c) <= TOL for c in v.t.values())
        return not v.t
    if _is_sympy(v):
        import sympy
        try:
            if v.is_number:
                return abs(complex(v)) <= TOL if not v.is_Rational else v == 0
        except Exception:
            pass
        return sympy.simplify(sympy.expand(v)) == 0
    if _is_array(v):
        import numpy as np
        a = np.asarray(v)
        if a.dtype == object:
            return all(coef_is_zero(e) for e in a.ravel())
        return bool(np.all(np.abs(a) <= TOL))
    if isinstance(v, (int, Fr)):
        return v == 0
    try:
        return abs(complex(v)) <= TOL
    except Exception:
        return v == 0


def coef_equal(a, b, tol=TOL):
    if a is b:
        return True
    if isinstance(a, FreePoly) or isinstance(b, FreePoly):
        pa, pb = FreePoly._c(a), FreePoly._c(b)
        if pa is NotImplemented or pb is NotImplemented:
            return False
        if pa.inexact or pb.inexact:
            return pa.close(pb, tol)
        return pa.t == pb.t
    if _is_array(a) or _is_array(b) or isinstance(a, (list, tuple)) or isinstance(b, (list, tuple)):
        import numpy as np
        try:
            A, B = np.asarray(a), np.asarray(b)
            if A.dtype == object or B.dtype == object:
                A, B = np.broadcast_arrays(A, B)
                return all(coef_equal(x, y, tol) for x, y in zip(A.ravel(), B.ravel()))
            A, B = np.broadcast_arrays(A, B)
            scale = np.maximum(1, np.maximum(np.abs(A), np.abs(B)))
            return bool(np.all(np.abs(A - B) <= tol * scale))
        except Exception:
            return False
    if _is_sympy(a) or _is_sympy(b):
        import sympy
        try:
            diff = sympy.sympify(a) - sympy.sympify(b)
            if diff == 0:
                return True
            diff = sympy.expand(diff)
            if diff == 0:
                return True
            if diff.is_number:
                return abs(complex(diff)) <= tol * max(1, abs(complex(sympy.sympify(a))))
            diff = sympy.simplify(sympy.cancel(diff))
            if diff == 0:
                return True
            if diff.is_number:
                return abs(complex(diff)) <= tol * max(1, abs(complex(sympy.sympify(a))))
            # last resort: tiny float coefficients left over
            if all(abs(complex(c)) <= tol for c in diff.as_coefficients_dict().values()):
                return True
            return False
        except Exception:
            return False
    if is_exact(a) and is_exact(b):
        return a == b
    try:
        ca, cb = complex(a), complex(b)
    except Exception:
        try:
            return bool(a == b)
        except Exception:
            return False
    if ca != ca or cb != cb:     # nan
        return False
    return abs(ca - cb) <= tol * max(1, abs(ca), abs(cb))


def elem_diff(x, y, tol=TOL):
    """x, y: {key: coef}.  Returns list of keys on which they differ."""
    bad = []
    for k in set(x) | set(y):
        if k in x and k in y:
            if not coef_equal(x[k], y[k], tol):
                bad.append(k)
        else:
            v = x[k] if k in x else y[k]
            if not coef_is_zero(v):
                bad.append(k)
    return sorted(bad)


def elem_equal(x, y, tol=TOL):
    return not elem_diff(x, y, tol)


def mv_dict(mv):
    """{key: value} of a kingdon multivector, summing duplicate keys."""
    r = {}
    for k, v in zip(mv.keys(), mv.values()):
        r[k] = (r[k] + v) if k in r else v
    return r


def show(v, limit=160):
    s = repr(v)
    return s if len(s) <= limit else s[:limit] + '...'


def show_elem(x, limit=400):
    s = '{' + ', '.join(f'{k}: {show(v, 80)}' for k, v in sorted(x.items(), key=lambda kv: str(kv[0]))) + '}'
    return s if len(s) <= limit else s[:limit] + '...'

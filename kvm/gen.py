"""Seeded generators: algebra configurations, key patterns, values.

A *configuration* is a JSON-able dict:
  {'p':..,'q':..,'r':..} | {'signature':[..]}, optional 'start_index', 'basis',
  optional 'named' ('2DPGA'|'3DPGA'|'STAP'), optional 'opts' {cse, graded, symcls, wrapper}.
"""
import itertools
import functools
from fractions import Fraction as Fr


# ---------------------------------------------------------------------------------
# configurations

def pqr_all(dmin, dmax):
    out = []
    for d in range(dmin, dmax + 1):
        for p in range(d, -1, -1):
            for q in range(d - p, -1, -1):
                out.append({'p': p, 'q': q, 'r': d - p - q})
    return out


def sig_orderings(dmin, dmax):
    out = []
    for d in range(dmin, dmax + 1):
        for s in itertools.product((1, -1, 0), repeat=d):
            out.append({'signature': list(s)})
    return out


def cfg_dim(cfg):
    if 'signature' in cfg:
        return len(cfg['signature'])
    if cfg.get('named'):
        return {'2DPGA': 3, '3DPGA': 4, 'STAP': 5}[cfg['named']]
    return cfg.get('p', 0) + cfg.get('q', 0) + cfg.get('r', 0)


def cfg_r(cfg):
    if 'signature' in cfg:
        return list(cfg['signature']).count(0)
    if cfg.get('named'):
        return 1
    return cfg.get('r', 0)


def effective_start(cfg):
    if cfg.get('start_index') is not None:
        return cfg['start_index']
    return 0 if cfg_r(cfg) == 1 else 1


def default_names(d, start):
    return [hex(start + i)[2:] for i in range(d)]


def make_basis(d, start, vec_order, spell, order_in_grade):
    """vec_order: permutation of range(d) (order of the vectors in the basis);
    spell(combo_tuple)->tuple: spelling permutation of a blade's generator indices;
    order_in_grade(list)->list: ordering of the blades within a grade."""
    names = default_names(d, start)
    basis = ['e']
    basis += ['e' + names[i] for i in vec_order]
    for g in range(2, d + 1):
        blades = []
        for combo in itertools.combinations(range(d), g):
            sp = spell(combo)
            blades.append('e' + ''.join(names[i] for i in sp))
        basis += order_in_grade(blades)
    return basis


def all_custom_bases(d, start):
    """Exhaustive for small d: every vector order x every spelling of every blade x every within-grade order."""
    out = []
    combos = [c for g in range(2, d + 1) for c in itertools.combinations(range(d), g)]
    spell_choices = [list(itertools.permutations(c)) for c in combos]
    for vec_order in itertools.permutations(range(d)):
        for spells in itertools.product(*spell_choices) if combos else [()]:
            sp = dict(zip(combos, spells))
            grades = {}
            for c in combos:
                grades.setdefault(len(c), []).append(c)
            orders = [list(itertools.permutations(range(len(grades[g])))) for g in sorted(grades)]
            for orderings in itertools.product(*orders) if orders else [()]:
                omap = dict(zip(sorted(grades), orderings))

                def oig(blades, _omap=omap):
                    g = len(blades[0]) - 1
                    return [blades[i] for i in _omap[g]]
                out.append(make_basis(d, start, vec_order, lambda c, _sp=sp: _sp[c], oig))
    return out


def random_basis(rng, d, start):
    vec_order = list(range(d))
    rng.shuffle(vec_order)

    def spell(c):
        c = list(c)
        if rng.random() < 0.6:
            rng.shuffle(c)
        return tuple(c)

    def oig(blades):
        blades = list(blades)
        if rng.random() < 0.6:
            rng.shuffle(blades)
        return blades
    return make_basis(d, start, vec_order, spell, oig)


def random_sig(rng, d, allow_null=True):
    return [rng.choice((1, -1, 0) if allow_null else (1, -1)) for _ in range(d)]


def random_custom_cfg(rng, d, allow_null=True):
    sig = random_sig(rng, d, allow_null)
    r = sig.count(0)
    start = rng.choice((0, 1, 2)) if d <= 7 else rng.choice((0, 1))
    return {'signature': sig, 'basis': random_basis(rng, d, start)}


NAMED = [{'named': '2DPGA'}, {'named': '3DPGA'}, {'named': 'STAP'}]

_IDENT = None


def identity_wrapper(f):
    return f


def wraps_wrapper(f):
    @functools.wraps(f)
    def inner(*a):
        return f(*a)
    return inner


def make_algebra(cfg, **extra):
    """Build the kingdon Algebra described by cfg (+ option overrides)."""
    from kingdon import Algebra
    opts = dict(cfg.get('opts', {}))
    opts.update(extra)
    kw = {}
    if 'cse' in opts:
        kw['cse'] = opts['cse']
    if 'graded' in opts:
        kw['graded'] = opts['graded']
    if opts.get('symcls') == 'sympy':
        import sympy
        kw['codegen_symbolcls'] = sympy.Symbol
    w = opts.get('wrapper')
    if w == 'identity':
        kw['wrapper'] = identity_wrapper
    elif w == 'wraps':
        kw['wrapper'] = wraps_wrapper
    if opts.get('simp_func') == 'none':
        kw['simp_func'] = None          # documented way to switch the symbolic zero filter off
    if 'pretty_blade' in opts:
        kw['pretty_blade'] = opts['pretty_blade']
    if cfg.get('named'):
        return Algebra.fromname(cfg['named'], **kw)
    if cfg.get('start_index') is not None:
        kw['start_index'] = cfg['start_index']
    if cfg.get('basis'):
        kw['basis'] = list(cfg['basis'])
    if 'signature' in cfg:
        return Algebra(signature=list(cfg['signature']), **kw)
    return Algebra(cfg.get('p', 0), cfg.get('q', 0), cfg.get('r', 0), **kw)


def cfg_str(cfg):
    if cfg.get('named'):
        s = cfg['named']
    elif 'signature' in cfg:
        s = 'sig' + ''.join({1: '+', -1: '-', 0: '0'}[x] for x in cfg['signature'])
    else:
        s = f"R{cfg.get('p', 0)},{cfg.get('q', 0)},{cfg.get('r', 0)}"
    if cfg.get('start_index') is not None:
        s += f"/s{cfg['start_index']}"
    if cfg.get('basis'):
        s += '/b:' + ','.join(cfg['basis'])
    if cfg.get('opts'):
        s += '/' + ','.join(f'{k}={v}' for k, v in sorted(cfg['opts'].items()))
    return s


def standard_configs(rng, tier, dmax_pqr, dmax_sig, n_custom, custom_dims=(3, 4, 5), start_indices=(0, 1, 2),
                     named=True, exhaustive_custom_d=2):
    """The configuration list shared by several properties (C01's list)."""
    cfgs = []
    cfgs += pqr_all(1, dmax_pqr)
    cfgs += sig_orderings(1, dmax_sig)
    for s in start_indices:
        for base in ({'p': 2, 'q': 1, 'r': 0}, {'p': 2, 'q': 0, 'r': 1}, {'signature': [-1, 0, 1]}, {'p': 1, 'q': 1, 'r': 2}):
            c = dict(base)
            c['start_index'] = s
            cfgs.append(c)
    for d in range(1, exhaustive_custom_d + 1):
        for start in (0, 1):
            for sig in ([1] * d, [-1] + [1] * (d - 1), [0] + [1] * (d - 1), ([1, 0] if d == 2 else [1])):
                for b in all_custom_bases(d, start):
                    cfgs.append({'signature': sig[:d], 'basis': b})
    for i in range(n_custom):
        d = custom_dims[i % len(custom_dims)]
        cfgs.append(random_custom_cfg(rng, d))
    if named:
        cfgs += NAMED
    # de-duplicate
    seen, out = set(), []
    for c in cfgs:
        k = cfg_str(c)
        if k not in seen:
            seen.add(k)
            out.append(c)
    return out


def split(items, n):
    """Round-robin split into at most n non-empty lists."""
    n = max(1, min(n, len(items)))
    return [items[i::n] for i in range(n)]


# ---------------------------------------------------------------------------------
# key patterns

def ordered_subsets(keys):
    """Every subset in every order (65 for 4 keys)."""
    keys = list(keys)
    out = []
    for r in range(len(keys) + 1):
        for c in itertools.permutations(keys, r):
            out.append(tuple(c))
    return out


def canonical_subsets(keys):
    keys = list(keys)
    out = []
    for mask in range(2 ** len(keys)):
        out.append(tuple(k for i, k in enumerate(keys) if mask >> i & 1))
    return out


def grade_of(k):
    return bin(k).count('1')


def grade_block(canon_keys, grades):
    return tuple(k for k in canon_keys if grade_of(k) in grades)


def random_subset(rng, canon_keys, max_size, min_size=0, canonical=True):
    n = rng.randint(min_size, min(max_size, len(canon_keys)))
    ks = rng.sample(list(canon_keys), n)
    if canonical:
        pos = {k: i for i, k in enumerate(canon_keys)}
        ks.sort(key=pos.__getitem__)
    return tuple(ks)


def random_pattern(rng, canon_keys, d, max_size, allow_empty=True):
    """A mix of families: grade blocks, single blades, even/odd, sparse random, permuted, dense."""
    kind = rng.choice(['sparse', 'sparse', 'sparse', 'perm', 'perm', 'gradeblock', 'single', 'evenodd', 'dense', 'empty'])
    if kind == 'empty' and not allow_empty:
        kind = 'single'
    if kind == 'empty':
        return ()
    if kind == 'single':
        return (rng.choice(canon_keys),)
    if kind == 'gradeblock':
        g = rng.sample(range(d + 1), rng.randint(1, min(2, d + 1)))
        ks = grade_block(canon_keys, g)
        if len(ks) <= max_size:
            return ks
        return tuple(ks[:max_size])
    if kind == 'evenodd':
        par = rng.choice((0, 1))
        ks = tuple(k for k in canon_keys if grade_of(k) % 2 == par)
        if len(ks) <= max_size:
            return ks
        return random_subset(rng, ks, max_size, 1)
    if kind == 'dense':
        if len(canon_keys) <= max_size:
            return tuple(canon_keys) if rng.random() < 0.5 else tuple(range(len(canon_keys)))
        return random_subset(rng, canon_keys, max_size, 1)
    if kind == 'perm':
        ks = list(random_subset(rng, canon_keys, max_size, 1))
        rng.shuffle(ks)
        return tuple(ks)
    return random_subset(rng, canon_keys, max_size, 1)


def permuted(rng, keys):
    ks = list(keys)
    rng.shuffle(ks)
    return tuple(ks)


def padded(rng, keys, canon_keys, max_extra):
    """Zero-padded superset: returns (new key tuple, set of padding keys)."""
    missing = [k for k in canon_keys if k not in keys]
    extra = rng.sample(missing, min(len(missing), rng.randint(0, max_extra)))
    ks = list(keys) + extra
    rng.shuffle(ks)
    return tuple(ks), set(extra)


# ---------------------------------------------------------------------------------
# values

def small_int(rng, lo=-4, hi=4, nonzero=False):
    v = rng.randint(lo, hi)
    while nonzero and v == 0:
        v = rng.randint(lo, hi)
    return v


def small_frac(rng, nonzero=False):
    v = Fr(rng.randint(-6, 6), rng.choice((1, 1, 2, 3, 4)))
    while nonzero and v == 0:
        v = Fr(rng.randint(-6, 6), rng.choice((1, 1, 2, 3, 4)))
    return v


def dyadic(rng):
    return rng.randint(-16, 16) / 8.0


def rational_point(rng, box=10 ** 6):
    return Fr(rng.randint(-box, box), rng.randint(1, 97))


def mv_from(alg, keys, values):
    """Build a multivector storing exactly `keys` in exactly this order."""
    from kingdon.multivector import MultiVector
    return MultiVector.fromkeysvalues(alg, tuple(keys), list(values))


def make_or_skip(ctx, cfg, **extra):
    """make_algebra under the watchdog; a configuration that cannot be constructed is recorded (and, for the properties that
    quantify over every admissible configuration - C01 and C14 - reported as a violation) and skipped instead of crashing the shard."""
    def build():
        from .iso import Iso
        alg = make_algebra(cfg, **extra)
        Iso(alg)        # the algebra's own description (signature, start_index, blade names) must be consistent
        return alg
    st, alg = ctx.guarded(120, build)
    if st == 'ok':
        return alg
    ctx.count('algebra_construction_failed')
    if st == 'exc':
        ctx.note_raised(alg, 'construct')
        if ctx.prop in ('C01', 'C14'):
            ctx.violation('an admissible algebra configuration cannot be constructed', ['construct', cfg_str(cfg)], config=cfg,
                          error=f'{type(alg).__name__}: {str(alg)[:200]}')
    return None


def sibling_sets(rng, dims=(2, 3, 4), per_dim=2):
    """Groups of configurations that share the counts (p, q, r) - and so every key pattern - but not the sign table: the same mixed
    signature in different generator orders, with a custom basis (other generator order / blade spellings) or as a named algebra.
    Executed side by side in one process on the same key patterns (workload.iter_cases) they expose state that is shared between
    algebra objects (module-level memos keyed on less than the sign table)."""
    out = []
    for d in dims:
        for _ in range(per_dim):
            while True:
                sig = random_sig(rng, d)
                if len(set(sig)) >= 2:
                    break
            perms = []
            for _t in range(20):
                s2 = list(sig)
                rng.shuffle(s2)
                if s2 != sig and s2 not in perms:
                    perms.append(s2)
                if len(perms) == 2:
                    break
            grp = [{'signature': sig}] + [{'signature': s} for s in perms]
            grp.append({'signature': sig, 'basis': random_basis(rng, d, rng.choice((0, 1)))})
            rng.shuffle(grp)
            out.append(grp)
    out.append([{'signature': [1, 1, 0]}, {'named': '2DPGA'}, {'p': 2, 'q': 0, 'r': 1}])
    out.append([{'signature': [1, 1, 1, 0]}, {'named': '3DPGA'}, {'p': 3, 'q': 0, 'r': 1}])
    return out

"""Monitors installed from outside the repository (DESIGN 1.1): wrapper counters on the
code-generation entry points, an audit hook for compile/exec issued from kingdon.codegen,
a recording namespace, and seeded yield injection at LINE events of kingdon frames."""
import functools
import os
import random
import sys
import threading
import time


class GenEvents:
    """Counts entries into kingdon's code-generation functions and compile/exec audit events
    whose calling frame is inside kingdon.codegen."""
    _audit_installed = False
    _active = None

    def __init__(self):
        self.lock = threading.Lock()
        self.counts = {'do_codegen': 0, 'do_compile': 0, 'lambdify': 0, 'func_builder': 0,
                       'audit_compile': 0, 'audit_exec': 0}
        self.log = []           # (thread name, function, detail)
        self.completed = []     # (id(algebra), codegen function name, key pattern) of generations that returned
        self.evaluations = dict.fromkeys(self.counts, 0)   # lifetime evaluation counts (never reset)
        self._orig = {}

    def install(self):
        import kingdon.operator_dict as od
        import kingdon.codegen as cg
        import kingdon.multivector as mvmod
        for mod, name in ((od, 'do_codegen'), (od, 'do_compile'), (cg, 'lambdify'), (cg, 'func_builder')):
            orig = getattr(mod, name)
            self._orig[(mod, name)] = orig
            setattr(mod, name, self._wrap(name, orig))
        if not GenEvents._audit_installed:
            sys.addaudithook(GenEvents._audit)
            GenEvents._audit_installed = True
        GenEvents._active = self
        return self

    def uninstall(self):
        for (mod, name), orig in self._orig.items():
            setattr(mod, name, orig)
        self._orig.clear()
        GenEvents._active = None

    def _wrap(self, name, orig):
        @functools.wraps(orig)
        def wrapper(*a, **kw):
            detail = None
            if name in ('do_codegen', 'do_compile'):
                try:
                    detail = (getattr(a[0], '__name__', '?'), tuple(tuple(m.keys()) for m in a[1:]))
                except Exception:
                    detail = None
            with self.lock:
                self.counts[name] += 1
                self.evaluations[name] += 1
                self.log.append((threading.current_thread().name, name, detail))
            out = orig(*a, **kw)
            if detail is not None:
                try:
                    with self.lock:
                        # the cache is a dict keyed by the operands' key containers: a range and a tuple with the same blades are different
                        # entries on the pinned tree as well, so the container type is part of the identity recorded here
                        kinds = tuple(type(m.keys()).__name__ for m in a[1:])
                        self.completed.append((id(a[1].algebra), id(a[0]), detail[0], detail[1], kinds))
                except Exception:
                    pass
            return out
        return wrapper

    @staticmethod
    def _audit(event, args):
        self = GenEvents._active
        if self is None or event not in ('compile', 'exec'):
            return
        try:
            f = sys._getframe(1)
            modname = f.f_globals.get('__name__', '')
        except Exception:
            return
        if modname == 'kingdon.codegen':
            with self.lock:
                k = 'audit_' + event
                self.counts[k] += 1
                self.evaluations[k] += 1

    def snapshot(self):
        with self.lock:
            return dict(self.counts)

    def delta(self, before):
        now = self.snapshot()
        return {k: now[k] - before[k] for k in now}


class RecordingNamespace(dict):
    """Drop-in for Algebra.numspace: records when a name is rebound to a *different* function."""

    def __init__(self, *a, **kw):
        super().__init__(*a, **kw)
        self.rebinds = []
        self._lock = threading.Lock()

    def __setitem__(self, k, v):
        with self._lock:
            if k in self and dict.__getitem__(self, k) is not v:
                self.rebinds.append(k)
            dict.__setitem__(self, k, v)


def cache_sizes(alg):
    sizes = {}
    for name, od in alg.registry.items():
        nm = name if isinstance(name, str) else getattr(name, '__name__', repr(name))
        sizes[f'{nm}@{id(od) & 0xffff:x}'] = len(od.operator_dict)
    sizes['<numspace>'] = len(alg.numspace)
    return sizes


class YieldInjector:
    """Seeded yield injection (time.sleep(0)) at LINE events of frames whose code lives in the
    kingdon package; everything else is DISABLEd so it costs nothing after the first hit."""
    TOOL = 3

    def __init__(self, seed, p=0.05):
        self.p = p
        self.seed = seed
        self.local = threading.local()
        self.lines = 0
        self.yields = 0
        kdir = None
        import kingdon
        self.kdir = os.path.dirname(os.path.realpath(kingdon.__file__)) + os.sep
        self._kfile = {}

    def _rng(self):
        r = getattr(self.local, 'rng', None)
        if r is None:
            r = self.local.rng = random.Random(f'{self.seed}/{threading.current_thread().name}')
        return r

    def _line(self, code, lineno):
        fn = code.co_filename
        isk = self._kfile.get(fn)
        if isk is None:
            isk = self._kfile[fn] = os.path.realpath(fn).startswith(self.kdir) if not fn.startswith('<') else False
        if not isk:
            return sys.monitoring.DISABLE
        self.lines += 1
        if self._rng().random() < self.p:
            self.yields += 1
            time.sleep(0)
        return None

    def __enter__(self):
        m = sys.monitoring
        m.use_tool_id(self.TOOL, 'kvm-yield')
        m.register_callback(self.TOOL, m.events.LINE, self._line)
        m.set_events(self.TOOL, m.events.LINE)
        self._old_switch = sys.getswitchinterval()
        sys.setswitchinterval(1e-6)
        return self

    def __exit__(self, *exc):
        m = sys.monitoring
        m.set_events(self.TOOL, 0)
        m.register_callback(self.TOOL, m.events.LINE, None)
        m.free_tool_id(self.TOOL)
        sys.setswitchinterval(self._old_switch)
        m.restart_events()
        return False

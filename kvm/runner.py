"""Sharded execution, verdicts, evidence.  See DESIGN.md section 2 / 5.

main():   ./check <ID> [--tier quick|thorough] [--seed N] [--replay FILE] [--jobs N]
worker(): python -m kvm.runner --worker <ID> <tier> <seed> <shard.json> <out.json>

Every shard runs in its own fresh subprocess (subprocess.run(timeout=...)),
imports kingdon from the repository's working tree and asserts that it did.
"""
import contextlib
import hashlib
import importlib
import json
import os
import random
import shutil
import signal
import subprocess
import sys
import time
import traceback

VERIF = os.path.dirname(os.path.dirname(os.path.abspath(__file__)))
REPO = os.environ.get('KINGDON_REPO', '/repo')
PY = os.environ.get('KINGDON_PYTHON', '/venv/bin/python')
GUARD = 'KINGDON_VERIF'
MAX_VIOL_PER_SHARD = 12
MAX_SAMPLES = 6


class CaseTimeout(BaseException):
    pass


class Inconclusive(Exception):
    pass


def _h(obj):
    return hashlib.blake2b(repr(obj).encode(), digest_size=6).hexdigest()


def jsonable(o, depth=0):
    if depth > 6:
        return repr(o)[:200]
    if isinstance(o, (str, int, bool)) or o is None:
        return o
    if isinstance(o, float):
        return o if o == o and abs(o) != float('inf') else repr(o)
    if isinstance(o, dict):
        return {str(k): jsonable(v, depth + 1) for k, v in o.items()}
    if isinstance(o, (list, tuple, set, frozenset)):
        return [jsonable(v, depth + 1) for v in o]
    s = repr(o)
    return s if len(s) <= 300 else s[:300] + '...'


class Ctx:
    """What a workload reports to."""

    def __init__(self, prop, tier, seed, shard, deadline=None, only_case=None):
        self.prop, self.tier, self.seed, self.shard = prop, tier, seed, shard
        self.counters = {}
        self.cases = set()
        self.evaluations = 0
        self.violations = []
        self.samples = []
        self.raised = {}
        self.timeouts = 0
        self.notes = []
        self.t0 = time.time()
        self.deadline = deadline
        self.only_case = only_case
        self.rng = random.Random(f'{prop}/{seed}/{json.dumps(shard, sort_keys=True)}')
        self.viol_suppressed = 0
        self._sig_count = {}
        self.dsets = {}

    # -- bookkeeping ----------------------------------------------------------
    def count(self, name, n=1):
        self.counters[name] = self.counters.get(name, 0) + n

    def evaluated(self, n=1):
        self.evaluations += n

    def case(self, key, nontrivial=True):
        """A decided case.  `key` identifies it (for distinct counting)."""
        self.evaluations += 1
        if nontrivial:
            self.cases.add(_h(key))

    def distinct(self, name, key):
        """Named set of distinct observations (merged across shards; its size is reported in the evidence)."""
        self.dsets.setdefault(name, set()).add(_h(key))

    def sample(self, obj):
        if len(self.samples) < MAX_SAMPLES:
            self.samples.append(jsonable(obj))

    def note_raised(self, exc, where=''):
        k = type(exc).__name__ + (('@' + where) if where else '')
        self.raised[k] = self.raised.get(k, 0) + 1

    def violation(self, kind, case_id, **witness):
        """A refutation of the property (subject to known-finding classification)."""
        # cap per mechanism-ish signature, so that many occurrences of one (possibly known) mechanism never hide another one
        sig = (kind, witness.get('exc_type'), witness.get('exc_where'), witness.get('mode'), witness.get('op'),
               witness.get('what'), witness.get('form'), witness.get('mechanism_hint'))
        self._sig_count[sig] = self._sig_count.get(sig, 0) + 1
        if self._sig_count[sig] > MAX_VIOL_PER_SHARD:
            self.viol_suppressed += 1
            return
        w = {'property': self.prop, 'kind': kind, 'case_id': jsonable(case_id), 'shard': self.shard,
             'seed': self.seed, 'tier': self.tier}
        w.update({k: jsonable(v) for k, v in witness.items()})
        self.violations.append(w)

    def time_left(self):
        if self.deadline is None:
            return 1e9
        return self.deadline - time.time()

    def out_of_time(self):
        return self.time_left() <= 0

    def want(self, case_id):
        if self.only_case is None:
            return True
        cid = jsonable(case_id)
        # a violation may carry a sub-case suffix (cid + [...]): the replay filter accepts the base case it belongs to
        return cid == self.only_case or (isinstance(cid, list) and isinstance(self.only_case, list) and self.only_case[:len(cid)] == cid)

    @contextlib.contextmanager
    def alarm(self, seconds):
        """Per-case watchdog.  Firing = that case is inconclusive (counted)."""
        def handler(sig, frm):
            raise CaseTimeout()
        old = signal.signal(signal.SIGALRM, handler)
        signal.setitimer(signal.ITIMER_REAL, seconds)
        try:
            yield
        finally:
            signal.setitimer(signal.ITIMER_REAL, 0)
            signal.signal(signal.SIGALRM, old)

    def guarded(self, seconds, fn, *a, **kw):
        """Run fn under the watchdog.  Returns ('ok', value) | ('exc', exception) | ('timeout', None)."""
        try:
            with self.alarm(seconds):
                return 'ok', fn(*a, **kw)
        except CaseTimeout:
            self.timeouts += 1
            return 'timeout', None
        except RecursionError as e:
            return 'exc', e
        except Exception as e:
            return 'exc', e

    def result(self):
        return {
            'counters': self.counters, 'cases': sorted(self.cases), 'evaluations': self.evaluations,
            'violations': self.violations, 'viol_suppressed': self.viol_suppressed,
            'samples': self.samples, 'raised': self.raised, 'timeouts': self.timeouts,
            'notes': self.notes[:20], 'elapsed': time.time() - self.t0, 'dsets': {k: sorted(v) for k, v in self.dsets.items()},
        }


# ---------------------------------------------------------------------------------
# repository state

def repo_state():
    h = hashlib.sha256()
    kdir = os.path.join(REPO, 'kingdon')
    for fn in sorted(os.listdir(kdir)):
        if fn.endswith(('.py', '.js')):
            with open(os.path.join(kdir, fn), 'rb') as f:
                h.update(fn.encode())
                h.update(f.read())
    try:
        desc = subprocess.run(['git', '-C', REPO, 'describe', '--always', '--dirty'], capture_output=True,
                              text=True, timeout=20).stdout.strip()
    except Exception:
        desc = 'unknown'
    return {'git': desc, 'kingdon_sha256': h.hexdigest()[:16]}


def ensure_deps():
    """Third-party helpers (icontract) live in git-ignored /verif/.deps; install lazily, offline."""
    deps = os.path.join(VERIF, '.deps')
    if os.path.isdir(os.path.join(deps, 'icontract')):
        return deps
    try:
        subprocess.run([PY, '-m', 'pip', 'install', '-q', '--no-index', '--find-links', '/opt/veriftools/wheels',
                        '--target', deps, 'icontract'], capture_output=True, timeout=300)
    except Exception:
        pass
    return deps


def child_env():
    env = dict(os.environ)
    deps = os.path.join(VERIF, '.deps')
    env['PYTHONPATH'] = os.pathsep.join([REPO, VERIF, deps])
    env['PYTHONDONTWRITEBYTECODE'] = '1'
    env['PYTHONHASHSEED'] = '0'
    env[GUARD] = '1'
    env.setdefault('OMP_NUM_THREADS', '1')
    env.setdefault('OPENBLAS_NUM_THREADS', '1')
    env.setdefault('MKL_NUM_THREADS', '1')
    return env


# ---------------------------------------------------------------------------------
# worker

def worker_main(argv):
    prop, tier, seed, shard_file, out_file = argv[:5]
    only_case = None
    if len(argv) > 5:
        only_case = json.loads(argv[5])
    seed = int(seed)
    with open(shard_file) as f:
        desc = json.load(f)
    sys.setrecursionlimit(3000)
    import warnings
    warnings.simplefilter('ignore')
    out = {'ok': False}
    try:
        import kingdon
        kfile = os.path.realpath(kingdon.__file__)
        if not kfile.startswith(os.path.realpath(REPO) + os.sep):
            raise Inconclusive(f'kingdon imported from {kfile}, not from {REPO}')
        mod = importlib.import_module(f'props.{prop.lower()}')
        ctx = Ctx(prop, tier, seed, desc['shard'], deadline=time.time() + desc['deadline_s'], only_case=only_case)
        mod.run_shard(desc['shard'], ctx)
        try:
            from . import ops as _ops
            for k, v in _ops.FORMS_USED.items():
                ctx.count('calls_via_' + k, v)
        except Exception:
            pass
        out = ctx.result()
        out['ok'] = True
    except Inconclusive as e:
        out = {'ok': False, 'inconclusive': str(e)}
    except BaseException as e:
        out = {'ok': False, 'crash': ''.join(traceback.format_exception(type(e), e, e.__traceback__))[-4000:]}
    with open(out_file, 'w') as f:
        json.dump(out, f)
    return 0


# ---------------------------------------------------------------------------------
# main

def load_known():
    p = os.path.join(VERIF, 'known_findings.json')
    if not os.path.exists(p):
        return []
    with open(p) as f:
        return json.load(f).get('findings', [])


def run_pool(jobs, nproc):
    """jobs: list of (cmd, timeout_s, tag). Returns dict tag -> (returncode|'timeout', stderr tail)."""
    results = {}
    running = []
    jobs = list(jobs)
    env = child_env()
    while jobs or running:
        while jobs and len(running) < nproc:
            cmd, to, tag = jobs.pop(0)
            p = subprocess.Popen(cmd, env=env, cwd=VERIF, stdout=subprocess.DEVNULL, stderr=subprocess.PIPE)
            running.append((p, time.time() + to, tag))
        time.sleep(0.05)
        still = []
        for p, dl, tag in running:
            rc = p.poll()
            if rc is not None:
                err = p.stderr.read().decode(errors='replace')[-2000:]
                results[tag] = (rc, err)
            elif time.time() > dl:
                p.kill()
                p.wait()
                results[tag] = ('timeout', '')
            else:
                still.append((p, dl, tag))
        running = still
    return results


def main(argv=None):
    import argparse
    ap = argparse.ArgumentParser()
    ap.add_argument('prop')
    ap.add_argument('--tier', default=os.environ.get('VERIF_TIER', 'quick'), choices=['quick', 'thorough'])
    ap.add_argument('--seed', type=int, default=int(os.environ.get('VERIF_SEED', '0') or 0))
    ap.add_argument('--replay', default=None)
    ap.add_argument('--jobs', type=int, default=int(os.environ.get('VERIF_JOBS', '0') or 0) or (os.cpu_count() or 4))
    ap.add_argument('--keep', action='store_true')
    args = ap.parse_args(argv)
    prop = args.prop.upper()
    sys.path.insert(0, VERIF)
    ensure_deps()
    mod = importlib.import_module(f'props.{prop.lower()}')
    t0 = time.time()

    only_case = None
    if args.replay:
        with open(args.replay) as f:
            w = json.load(f)
        shards = [w['shard']]
        tier, seed = w.get('tier', args.tier), int(w.get('seed', args.seed))
        only_case = w.get('case_id')
    else:
        tier, seed = args.tier, args.seed
        shards = mod.plan(tier, seed)
    budget = getattr(mod, 'SHARD_DEADLINE', {'quick': 240, 'thorough': 3000})[tier]

    work = os.path.join(VERIF, '.work', f'{prop}-{os.getpid()}')
    os.makedirs(work, exist_ok=True)
    jobs = []
    for i, sh in enumerate(shards):
        sf, of = os.path.join(work, f's{i}.json'), os.path.join(work, f'o{i}.json')
        with open(sf, 'w') as f:
            json.dump({'shard': sh, 'deadline_s': budget}, f)
        cmd = [PY, '-m', 'kvm.runner', '--worker', prop, tier, str(seed), sf, of]
        if only_case is not None:
            cmd.append(json.dumps(only_case))
        jobs.append((cmd, budget + 120, i))
    pool = run_pool(jobs, max(1, args.jobs))

    merged = {'counters': {}, 'cases': set(), 'evaluations': 0, 'violations': [], 'samples': [], 'raised': {},
              'timeouts': 0, 'viol_suppressed': 0, 'notes': [], 'dsets': {}}
    problems = []
    shard_times = []
    for i, sh in enumerate(shards):
        of = os.path.join(work, f'o{i}.json')
        rc, err = pool.get(i, ('missing', ''))
        if not os.path.exists(of):
            problems.append(f'shard {i} produced no result (rc={rc}) {err[-300:]}')
            continue
        with open(of) as f:
            r = json.load(f)
        if not r.get('ok'):
            problems.append(f"shard {i}: {r.get('inconclusive') or r.get('crash')}")
            continue
        for k, v in r['counters'].items():
            merged['counters'][k] = merged['counters'].get(k, 0) + v
        merged['cases'].update(r['cases'])
        merged['evaluations'] += r['evaluations']
        merged['violations'].extend(r['violations'])
        merged['viol_suppressed'] += r.get('viol_suppressed', 0)
        for s in r['samples']:
            if len(merged['samples']) < MAX_SAMPLES:
                merged['samples'].append(s)
        for k, v in r['raised'].items():
            merged['raised'][k] = merged['raised'].get(k, 0) + v
        merged['timeouts'] += r['timeouts']
        for k, v in r.get('dsets', {}).items():
            merged['dsets'].setdefault(k, set()).update(v)
        merged['notes'].extend(r.get('notes', []))
        shard_times.append(round(r['elapsed'], 1))
    if not args.keep:
        shutil.rmtree(work, ignore_errors=True)
        with contextlib.suppress(OSError):
            os.rmdir(os.path.join(VERIF, '.work'))

    # -- classify violations against the committed known-findings file -----------
    from . import known as known_mod
    entries = [e for e in load_known() if e.get('property') == prop]
    open_entries = [e for e in entries if e.get('status') == 'open']
    known_hits = {}
    real = []
    for w in merged['violations']:
        hit = None
        for e in open_entries:
            pred = getattr(known_mod, e['predicate'], None)
            try:
                if pred and pred(w):
                    hit = e
                    break
            except Exception:
                pass
        if hit:
            known_hits.setdefault(hit['id'], []).append(w)
        else:
            real.append(w)

    # -- verdict --------------------------------------------------------------------
    floors = mod.floors(tier) if hasattr(mod, 'floors') else {}
    inconclusive = list(problems)
    if args.replay is None:
        for name, minimum in floors.items():
            have = len(merged['cases']) if name == 'distinct_nontrivial' else (
                merged['evaluations'] if name == 'evaluations' else merged['counters'].get(name, 0))
            if have < minimum:
                inconclusive.append(f'monitor counter {name}={have} below floor {minimum}')

    wall = time.time() - t0
    meta = getattr(mod, 'META', {})
    coverage = {
        'evaluations': merged['evaluations'],
        'distinct_nontrivial': len(merged['cases']),
        'rule': meta.get('rule', ''),
        'samples': merged['samples'] or ['(no sample recorded)'],
        'exhaustive': bool(meta.get('exhaustive', {}).get(tier, False)) if isinstance(meta.get('exhaustive'), dict) else False,
        'counters': dict(sorted(merged['counters'].items())),
        'distinct_observations': {k: len(v) for k, v in sorted(merged['dsets'].items())},
        'exceptions_recorded_not_judged': merged['raised'],
        'notes': merged['notes'][:16],
        'per_case_timeouts': merged['timeouts'],
        'shards': len(shards), 'shard_wall_s': shard_times,
        'known_findings_matched': {k: len(v) for k, v in known_hits.items()},
        'violations_unclassified': len(real),
        'inconclusive_reasons': inconclusive,
        'repo': repo_state(),
        'verdict': 'violated' if real else ('inconclusive' if inconclusive else 'held on what was observed'),
    }
    evidence = {
        'property_id': prop, 'tier': tier, 'seed': seed, 'level': meta.get('level', 'exploration'),
        'coverage': coverage, 'assumptions': meta.get('assumptions', []), 'wall_s': round(wall, 2),
        'violations': len(real),
    }
    if args.replay is None and not os.environ.get('VERIF_NO_EVIDENCE'):
        os.makedirs(os.path.join(VERIF, 'evidence'), exist_ok=True)
        with open(os.path.join(VERIF, 'evidence', f'{prop}.json'), 'w') as f:
            json.dump(evidence, f, indent=1, sort_keys=True)
            f.write('\n')

    print(f'[{prop}] tier={tier} seed={seed} shards={len(shards)} evaluations={merged["evaluations"]} '
          f'distinct_nontrivial={len(merged["cases"])} timeouts={merged["timeouts"]} wall={wall:.1f}s')
    for k, v in sorted(merged['counters'].items()):
        print(f'    {k} = {v}')
    for k, v in sorted(merged['dsets'].items()):
        print(f'    distinct {k} = {len(v)}')
    if merged['raised']:
        print('    exceptions recorded (not judged):', dict(sorted(merged['raised'].items())))
    for n_ in merged['notes'][:8]:
        print('    note:', str(n_)[:600])
    for eid, ws in known_hits.items():
        e = next(e for e in open_entries if e['id'] == eid)
        print(f"KNOWN-FINDING: property={prop} {eid}: {e.get('what_fails', e.get('mechanism', ''))} [{len(ws)} occurrence(s) this run]")
    if real:
        os.makedirs(os.path.join(VERIF, os.environ.get('VERIF_REPLAY_DIR', 'replay')), exist_ok=True)
        seen = set()
        n = 0
        for w in real:
            sig = (w['kind'], json.dumps(w.get('mechanism', ''), sort_keys=True))
            n += 1
            path = os.path.join(os.environ.get('VERIF_REPLAY_DIR', 'replay'), f'{prop}-{seed}-{n}.json')
            with open(os.path.join(VERIF, path), 'w') as f:
                json.dump(w, f, indent=1, sort_keys=True)
            if sig in seen and n > 12:
                continue
            seen.add(sig)
            brief = {k: v for k, v in w.items() if k not in ('shard', 'property', 'seed', 'tier')}
            print(f'VIOLATION property={prop} replay={path}')
            print('    ' + json.dumps(brief, sort_keys=True)[:900])
        print(f'[{prop}] {len(real)} violation(s) (+{merged["viol_suppressed"]} suppressed beyond per-shard cap)')
        return 1
    if inconclusive:
        for r in inconclusive:
            print(f'INCONCLUSIVE property={prop} reason={r}')
        return 2
    print(f'[{prop}] held on what was observed')
    return 0


if __name__ == '__main__':
    if len(sys.argv) > 1 and sys.argv[1] == '--worker':
        sys.exit(worker_main(sys.argv[2:]))
    sys.exit(main())

"""Post-conditions with OLD snapshots on real kingdon functions, applied from the harness.

Uses icontract (named condition functions, explicit error=) when it is importable - installed
offline into /verif/.deps by setup_cmd or lazily by the runner; otherwise the same named
condition functions run through a small decorator of our own, so no check depends on a
third-party wheel being present.  Conditions *record* problems and return True (a raising
contract would abort what it observes).  Every contract counts its evaluations: zero
evaluations => the deciding monitor was never reached => inconclusive.
"""
import functools
import inspect

EVALS = {}
try:                                    # depends on the environment
    import icontract
    BACKEND = 'icontract'
except Exception:
    icontract = None
    BACKEND = 'builtin'


class PostBroken(AssertionError):
    pass


class _Old:
    pass


def with_post(func, snapshot, post, name, snap_name='old'):
    """snapshot(<subset of func's parameters by name>) -> value stored as OLD.<snap_name>;
    post(<subset of func's parameters by name>[, result][, OLD]) -> True (records problems itself)."""
    EVALS.setdefault(name, 0)

    def counted_post(*a, **kw):
        EVALS[name] += 1
        return post(*a, **kw)
    counted_post.__signature__ = inspect.signature(post)
    counted_post.__name__ = getattr(post, '__name__', 'post')

    if icontract is not None:
        return icontract.snapshot(snapshot, name=snap_name)(icontract.ensure(counted_post, error=PostBroken)(func))

    sig = inspect.signature(func)
    snap_params = list(inspect.signature(snapshot).parameters)
    post_params = list(inspect.signature(post).parameters)

    @functools.wraps(func)
    def inner(*args, **kwargs):
        bound = sig.bind(*args, **kwargs)
        bound.apply_defaults()
        old = _Old()
        setattr(old, snap_name, snapshot(**{p: bound.arguments[p] for p in snap_params}))
        result = func(*args, **kwargs)
        kw = {}
        for p in post_params:
            if p == 'result':
                kw[p] = result
            elif p == 'OLD':
                kw[p] = old
            else:
                kw[p] = bound.arguments[p]
        if not counted_post(**kw):
            raise PostBroken(name)
        return result
    return inner

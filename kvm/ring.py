"""FreePoly: the harness's own exact polynomial ring Q[x1..xn].

Used as *coefficient type* of multivectors handed to kingdon's real compiled
functions: one execution then observes the polynomial the function computes.
Coefficients are Fractions; a Python float met on the way (generated code may
contain constants such as 1/6) is converted exactly and marks the polynomial
`inexact`, which makes equality tolerant per monomial.
"""
from fractions import Fraction as Fr
import numbers


class FreePoly:
    __slots__ = ('t', 'inexact')
    __array_priority__ = 1000

    def __init__(self, t=None, inexact=False):
        self.t = {k: v for k, v in (t or {}).items() if v != 0}
        self.inexact = inexact

    @classmethod
    def var(cls, name):
        return cls({((name, 1),): Fr(1)})

    @classmethod
    def const(cls, c):
        return cls({(): Fr(c)})

    @staticmethod
    def _c(o):
        if isinstance(o, FreePoly):
            return o
        if isinstance(o, bool):
            return FreePoly.const(int(o))
        if isinstance(o, (int, Fr)):
            return FreePoly.const(o)
        if isinstance(o, float):
            f = Fr(o)
            return FreePoly({(): f}, inexact=(f.denominator > 2 ** 30))
        if isinstance(o, numbers.Integral):
            return FreePoly.const(int(o))
        if isinstance(o, numbers.Real):
            return FreePoly._c(float(o))
        return NotImplemented

    def __add__(s, o):
        o = s._c(o)
        if o is NotImplemented:
            return o
        r = dict(s.t)
        for k, v in o.t.items():
            r[k] = r.get(k, 0) + v
        return FreePoly(r, s.inexact or o.inexact)

    __radd__ = __add__

    def __neg__(s):
        return FreePoly({k: -v for k, v in s.t.items()}, s.inexact)

    def __pos__(s):
        return s

    def __sub__(s, o):
        o = s._c(o)
        return NotImplemented if o is NotImplemented else s + (-o)

    def __rsub__(s, o):
        return (-s) + o

    def __mul__(s, o):
        o = s._c(o)
        if o is NotImplemented:
            return o
        r = {}
        for k1, v1 in s.t.items():
            for k2, v2 in o.t.items():
                if not k1:
                    k = k2
                elif not k2:
                    k = k1
                else:
                    d = dict(k1)
                    for n, e in k2:
                        d[n] = d.get(n, 0) + e
                    k = tuple(sorted(d.items()))
                r[k] = r.get(k, 0) + v1 * v2
        return FreePoly(r, s.inexact or o.inexact)

    __rmul__ = __mul__

    def __pow__(s, n, mod=None):
        if isinstance(n, float) and n == int(n):
            n = int(n)
        if not (isinstance(n, int) and n >= 0):
            return NotImplemented
        r = FreePoly.const(1)
        b = s
        while n:
            if n & 1:
                r = r * b
            n >>= 1
            if n:
                b = b * b
        return r

    def __truediv__(s, o):
        if isinstance(o, FreePoly):
            if len(o.t) == 1 and () in o.t:
                return FreePoly({k: v / o.t[()] for k, v in s.t.items()}, s.inexact or o.inexact)
            return NotImplemented
        c = s._c(o)
        if c is NotImplemented:
            return c
        if not c.t:
            raise ZeroDivisionError
        return FreePoly({k: v / c.t[()] for k, v in s.t.items()}, s.inexact or c.inexact)

    def __eq__(s, o):
        o = s._c(o)
        if o is NotImplemented:
            return False
        if not (s.inexact or o.inexact):
            return s.t == o.t
        return s.close(o)

    def __ne__(s, o):
        return not s.__eq__(o)

    def close(s, o, tol=1e-9):
        for k in set(s.t) | set(o.t):
            a, b = s.t.get(k, 0), o.t.get(k, 0)
            if abs(a - b) > tol * max(1, abs(a), abs(b)):
                return False
        return True

    def __hash__(s):
        return hash(tuple(sorted(s.t.items())))

    def __bool__(s):
        return bool(s.t)

    def is_const(s):
        return not s.t or (len(s.t) == 1 and () in s.t)

    def evaluate(s, env):
        """Evaluate at a point: env maps variable name -> number."""
        tot = 0
        for k, v in s.t.items():
            m = v
            for n, e in k:
                m = m * env[n] ** e
            tot = tot + m
        return tot

    def variables(s):
        return {n for k in s.t for n, _ in k}

    def __repr__(s):
        if not s.t:
            return 'P(0)'
        parts = []
        for k, v in sorted(s.t.items()):
            mon = '*'.join(n if e == 1 else f'{n}^{e}' for n, e in k)
            parts.append(f'{v}' + (f'*{mon}' if mon else ''))
        return 'P(' + ' + '.join(parts) + ')'


def generic_values(prefix, keys):
    """One indeterminate per stored blade, named after position *and* key so that
    permuted key tuples keep (key -> indeterminate) fixed."""
    return [FreePoly.var(f'{prefix}{k}') for k in keys]

#!/usr/bin/env python3
"""Verify a sub-agent's seeded regression myself and import it into /verif/seeded/<name>/.

  tools_import_seed.py <property id> <dir with patchN.diff/demoN.py/notes.md> <N> [--checks C15 C04 ...] [--name C15-a]
Steps (all in scratch worktrees of /repo, removed afterwards): patch applies; the unedited test suite passes with it; the demo
exits 0 without and 1 with the patch; then the listed checks (default: the property's own) are run against the patched tree.
"""
import argparse, json, os, shutil, subprocess, sys, tempfile, time

ap = argparse.ArgumentParser()
ap.add_argument('prop'); ap.add_argument('src'); ap.add_argument('n')
ap.add_argument('--checks', nargs='*', default=None)
ap.add_argument('--name', default=None)
ap.add_argument('--needs', default='')
ap.add_argument('--tier', default='quick')
a = ap.parse_args()
HERE = os.path.dirname(os.path.abspath(__file__))
patch = os.path.join(a.src, f'patch{a.n}.diff'); demo = os.path.join(a.src, f'demo{a.n}.py')
name = a.name or f'{a.prop}-{a.n}'
checks = a.checks or [a.prop]
ran = []
def sh(cmd, **kw):
    r = subprocess.run(cmd, capture_output=True, text=True, **kw)
    return r
wt = tempfile.mkdtemp(prefix='kvm-import-', dir='/tmp'); os.rmdir(wt)
ok = True
try:
    sh(['git', '-C', '/repo', 'worktree', 'add', '-q', '--detach', wt, 'HEAD'])
    env = dict(os.environ, PYTHONPATH=wt, PYTHONDONTWRITEBYTECODE='1')
    d0 = sh(['/venv/bin/python', os.path.abspath(demo)], cwd=wt, env=env, timeout=900)
    ran.append({'cmd': f'PYTHONPATH=<clean worktree> python demo.py', 'exit': d0.returncode})
    r = sh(['git', '-C', wt, 'apply', os.path.abspath(patch)])
    ran.append({'cmd': 'git apply patch.diff (on /repo HEAD)', 'exit': r.returncode})
    if r.returncode:
        print('patch does not apply:', r.stderr[:300]); ok = False
    else:
        t = sh(['/venv/bin/python', '-m', 'pytest', '-q', '-n', '8', '-p', 'no:cacheprovider', 'tests'], cwd=wt, env=env)
        last = (t.stdout.strip().splitlines() or ['?'])[-1]
        ran.append({'cmd': 'pytest -q -n 8 tests (patched)', 'result': last})
        d1 = sh(['/venv/bin/python', os.path.abspath(demo)], cwd=wt, env=env, timeout=900)
        ran.append({'cmd': 'PYTHONPATH=<patched worktree> python demo.py', 'exit': d1.returncode, 'last_line': (d1.stdout.strip().splitlines() or [''])[-1][:200]})
        print(f'{name}: demo clean={d0.returncode} patched={d1.returncode}; tests: {last}')
        if d0.returncode != 0 or d1.returncode != 1 or '105 passed' not in last:
            ok = False
finally:
    subprocess.run(['git', '-C', '/repo', 'worktree', 'remove', '--force', wt], capture_output=True)
if not ok:
    print(f'{name}: NOT CONFIRMED - not imported'); sys.exit(1)
dst = os.path.join(HERE, 'seeded', name)
os.makedirs(dst, exist_ok=True)
shutil.copy(patch, os.path.join(dst, 'patch.diff')); shutil.copy(demo, os.path.join(dst, 'demo.py'))
res = sh([os.path.join(HERE, 'tools_seeded.py'), os.path.join(dst, 'patch.diff')] + checks + ['--tier', a.tier])
print(res.stdout.strip())
caught = {}
for line in res.stdout.splitlines():
    for c in checks:
        if line.startswith(c + ':'):
            caught[c] = line.split()[1]
ran.append({'cmd': f'tools_seeded.py patch.diff {" ".join(checks)} --tier {a.tier}', 'result': caught})
notes = ''
np_ = os.path.join(a.src, 'notes.md')
if os.path.exists(np_):
    notes = open(np_).read()
    open(os.path.join(dst, 'agent_notes.md'), 'w').write(notes)
meta = {'breaks_property': a.prop, 'source': 'fresh sub-agent given only the property text and a scratch worktree', 'needs_to_manifest': a.needs,
        'confirmed': {'applies_to_repo_head': True, 'tests_with_patch': '105 passed', 'demo_exit_clean': 0, 'demo_exit_patched': 1},
        'checks_result': caught, 'what_was_run': ran}
json.dump(meta, open(os.path.join(dst, 'meta.json'), 'w'), indent=1)
print(f'{name}: imported;', caught)

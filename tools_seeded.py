#!/usr/bin/env python3
"""Run checks against a seeded regression in a scratch worktree (never in /repo, never writing evidence).

  tools_seeded.py <patch.diff> <ID> [<ID> ...] [--tier quick] [--seed 0] [--demo demo.py]
Prints per check: caught (exit 1 + VIOLATION) / missed (exit 0) / inconclusive, and the first violation line.
"""
import argparse, os, subprocess, sys, shutil, tempfile, json

ap = argparse.ArgumentParser()
ap.add_argument('patch')
ap.add_argument('ids', nargs='+')
ap.add_argument('--tier', default='quick')
ap.add_argument('--seed', default='0')
ap.add_argument('--demo', default=None)
ap.add_argument('--tests', action='store_true')
a = ap.parse_args()
HERE = os.path.dirname(os.path.abspath(__file__))
wt = tempfile.mkdtemp(prefix='kvm-seeded-', dir='/tmp')
os.rmdir(wt)
try:
    subprocess.run(['git', '-C', '/repo', 'worktree', 'add', '-q', '--detach', wt, 'HEAD'], check=True)
    r = subprocess.run(['git', '-C', wt, 'apply', os.path.abspath(a.patch)], capture_output=True, text=True)
    if r.returncode:
        print('PATCH DOES NOT APPLY:', r.stderr[:300]); sys.exit(3)
    env = dict(os.environ, KINGDON_REPO=wt, VERIF_NO_EVIDENCE='1', VERIF_REPLAY_DIR='.work/seeded-replay', PYTHONPATH=wt)
    if a.tests:
        t = subprocess.run(['/venv/bin/python', '-m', 'pytest', '-q', '-n', '8', '-p', 'no:cacheprovider', 'tests'], cwd=wt, env=env, capture_output=True, text=True)
        print('tests:', t.stdout.strip().splitlines()[-1] if t.stdout.strip() else t.stderr[-200:])
    if a.demo:
        d = subprocess.run(['/venv/bin/python', os.path.abspath(a.demo)], cwd=wt, env=env, capture_output=True, text=True, timeout=600)
        print('demo with patch: exit', d.returncode, '|', (d.stdout.strip().splitlines() or [''])[-1][:160])
    for pid in a.ids:
        c = subprocess.run([os.path.join(HERE, 'check'), pid, '--tier', a.tier, '--seed', a.seed], env=env, capture_output=True, text=True)
        lines = c.stdout.splitlines()
        viol = [l for l in lines if l.startswith('VIOLATION')]
        detail = ''
        for i, l in enumerate(lines):
            if l.startswith('VIOLATION') and i + 1 < len(lines):
                detail = lines[i + 1].strip()[:260]; break
        verdict = {0: 'MISSED', 1: 'CAUGHT' if viol else 'ERROR(no VIOLATION line)', 2: 'inconclusive'}.get(c.returncode, f'rc={c.returncode}')
        head = next((l for l in lines if l.startswith('[' + pid)), '')
        print(f'{pid}: {verdict} violations={len(viol)} {head[-40:]}')
        if detail:
            print('    ', detail)
        if c.returncode == 2:
            print('    ', [l for l in lines if l.startswith('INCONCLUSIVE')][:2])
finally:
    subprocess.run(['git', '-C', '/repo', 'worktree', 'remove', '--force', wt], capture_output=True)
    shutil.rmtree(os.path.join(HERE, '.work', 'seeded-replay'), ignore_errors=True)

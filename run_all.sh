#!/bin/sh
# ./run_all.sh [tier] [seed] : runs every check once, prints one status line per check
TIER="${1:-quick}"; SEED="${2:-0}"
cd "$(dirname "$0")"
for i in 01 02 03 04 05 06 07 08 09 10 11 12 13 14 15 16 17 18 19 20; do
  out=$(./check C$i --tier "$TIER" --seed "$SEED" 2>&1); rc=$?
  echo "C$i rc=$rc $(echo "$out" | grep -E '^\[C' | head -1)"
  [ $rc -ne 0 ] && echo "$out" | grep -E "VIOLATION|INCONCLUSIVE|KNOWN" | head -5
done

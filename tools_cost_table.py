#!/usr/bin/env python3
"""Print a markdown table from evidence/*.json (whatever tier was run last): evaluations, distinct cases, wall time, main counters."""
import json, glob, os
HERE = os.path.dirname(os.path.abspath(__file__))
print('| check | tier | seed | evaluations | distinct non-trivial | wall s | per-case timeouts | known findings matched |')
print('|---|---|---|---|---|---|---|---|')
for p in sorted(glob.glob(os.path.join(HERE, 'evidence', 'C*.json'))):
    e = json.load(open(p)); c = e['coverage']
    print(f"| {e['property_id']} | {e['tier']} | {e['seed']} | {c['evaluations']} | {c['distinct_nontrivial']} | {e['wall_s']} | {c.get('per_case_timeouts', 0)} | {c.get('known_findings_matched') or ''} |")

#!/usr/bin/env python3
"""Print a markdown table from evidence files: evaluations, distinct cases, wall time, known findings matched.
  tools_cost_table.py [dir]      dir defaults to evidence/ (whatever tier was run last); evidence_thorough/ holds the thorough copies."""
import json, glob, os, sys
HERE = os.path.dirname(os.path.abspath(__file__))
d = sys.argv[1] if len(sys.argv) > 1 else 'evidence'
print('| check | tier | seed | evaluations | distinct non-trivial | wall s (16 cores) | per-case timeouts | known findings matched (occurrences) |')
print('|---|---|---|---|---|---|---|---|')
tot = 0
for p in sorted(glob.glob(os.path.join(HERE, d, 'C*.json'))):
    e = json.load(open(p)); c = e['coverage']
    kf = c.get('known_findings_matched') or {}
    tot += e['wall_s']
    kfs = ', '.join('%s (%d)' % (k.split('/', 1)[1], v) for k, v in kf.items())
    print('| %s | %s | %s | %s | %s | %s | %s | %s |' % (e['property_id'], e['tier'], e['seed'], c['evaluations'], c['distinct_nontrivial'], e['wall_s'], c.get('per_case_timeouts', 0), kfs))
print(f'| total | | | | | {round(tot)} | | |')

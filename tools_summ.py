#!/usr/bin/env python3
"""Summarise replay/<ID>-*.json witnesses by mechanism-ish signature."""
import json, glob, sys, collections
pid = sys.argv[1]
c = collections.Counter(); ex = {}
for f in sorted(glob.glob(f'replay/{pid}-*.json')):
    w = json.load(open(f))
    feats = w.get('program', {}).get('feats') if isinstance(w.get('program'), dict) else None
    key = (w['kind'], w.get('mode'), w.get('exc_type'), w.get('exc_where'), w.get('op'))
    if feats is not None:
        key += (tuple(x for x in ('negpow','coeff','sqrtfam','regcall') if x in feats),)
    c[key] += 1; ex.setdefault(key, f)
for k, n in c.most_common():
    print(n, k, ex[k])

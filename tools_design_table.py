#!/usr/bin/env python3
"""Print the markdown table of seeded regressions and which checks catch them (from seeded/*/meta.json).
With --write: replace the block between '#### Catch table' and the paragraph starting 'Two classes of my own false alarms' in DESIGN.md."""
import json, glob, os, sys
HERE = os.path.dirname(os.path.abspath(__file__))
rows = ['| seeded change | property | what it needs to manifest | own check (quick) | other checks run |', '|---|---|---|---|---|']
n = caught = 0
missed = []
for d in sorted(glob.glob(os.path.join(HERE, 'seeded', '*'))):
    mp = os.path.join(d, 'meta.json')
    if not os.path.exists(mp):
        continue
    m = json.load(open(mp)); name = os.path.basename(d); prop = m['breaks_property']
    res = m.get('checks_result', {})
    others = ', '.join(f'{c} {v.lower()}' for c, v in res.items() if c != prop)
    own = res.get(prop, '?').lower()
    n += 1
    if own == 'caught':
        caught += 1
    else:
        missed.append(name)
    rows.append(f"| {name} | {prop} | {m.get('needs_to_manifest','')} | {own} | {others} |")
table = '\n'.join(rows)
if '--write' not in sys.argv:
    print(table)
    sys.exit(0)
p = os.path.join(HERE, 'DESIGN.md')
s = open(p).read()
a = s.index('#### Catch table')
b = s.index('Two classes of my own false alarms')
head = ('#### Catch table\n\nAs recorded in `seeded/<name>/meta.json` by `tools_seeded_table.py` (quick tier, seed 0, each patch applied in a scratch worktree, '
        'verdict "caught" = exit 1 with a VIOLATION line of the property\'s own check; the last column lists other checks that were run against '
        'the same patch at some point of the build - informational, possibly from an earlier state of those checks). '
        f'{caught} of {n} are caught by the own check; not caught: {", ".join(missed) or "none"} (see "undetected by design" above).\n\n')
open(p, 'w').write(s[:a] + head + table + '\n\n' + s[b:])
print(f'written: {caught}/{n}, not caught: {missed}')

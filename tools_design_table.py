#!/usr/bin/env python3
"""Print the markdown table of seeded regressions and which checks catch them (from seeded/*/meta.json)."""
import json, glob, os
HERE = os.path.dirname(os.path.abspath(__file__))
print('| seeded change | property | what it needs to manifest | own check (quick) | other checks run |')
print('|---|---|---|---|---|')
for d in sorted(glob.glob(os.path.join(HERE, 'seeded', '*'))):
    mp = os.path.join(d, 'meta.json')
    if not os.path.exists(mp):
        continue
    m = json.load(open(mp)); name = os.path.basename(d); prop = m['breaks_property']
    res = m.get('checks_result', {})
    others = ', '.join(f'{c} {v.lower()}' for c, v in res.items() if c != prop)
    print(f"| {name} | {prop} | {m.get('needs_to_manifest','')} | {res.get(prop,'?').lower()} | {others} |")

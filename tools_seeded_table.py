#!/usr/bin/env python3
"""Re-run every seeded regression under /verif/seeded against its property's own check (plus any checks already listed in its
meta.json), refresh meta.json['checks_result'] and print a markdown table. Scratch worktrees only; no evidence written."""
import json, os, subprocess, sys, glob
HERE = os.path.dirname(os.path.abspath(__file__))
args = sys.argv[1:]
all_checks = '--all-checks' in args
only = [a for a in args if not a.startswith('--')]
rows = []
for d in sorted(glob.glob(os.path.join(HERE, 'seeded', '*'))):
    name = os.path.basename(d)
    if only and name not in only:
        continue
    mp = os.path.join(d, 'meta.json')
    if not os.path.exists(mp):
        continue
    meta = json.load(open(mp))
    prop = meta['breaks_property']
    checks = [prop] + ([c for c in meta.get('checks_result', {}) if c != prop] if all_checks else [])
    r = subprocess.run([os.path.join(HERE, 'tools_seeded.py'), os.path.join(d, 'patch.diff')] + checks, capture_output=True, text=True)
    res = {}
    for line in r.stdout.splitlines():
        for c in checks:
            if line.startswith(c + ':'):
                res[c] = line.split()[1]
    old = dict(meta.get('checks_result', {}))
    old.update(res)
    meta['checks_result'] = old
    res = old
    meta.setdefault('what_was_run', []).append({'cmd': f'tools_seeded.py patch.diff {" ".join(checks)} (re-run after strengthening)', 'result': res})
    json.dump(meta, open(mp, 'w'), indent=1)
    rows.append((name, prop, res))
    print(name, res, flush=True)
print()
print('| seeded change | breaks | needs | own check | other checks |')
print('|---|---|---|---|---|')
for name, prop, res in rows:
    meta = json.load(open(os.path.join(HERE, 'seeded', name, 'meta.json')))
    others = ', '.join(f'{c}: {v.lower()}' for c, v in res.items() if c != prop)
    print(f"| {name} | {prop} | {meta.get('needs_to_manifest','')[:120]} | {res.get(prop, '?').lower()} | {others} |")

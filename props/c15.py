"""C15 - multivector construction and coefficient access round-trip."""
import itertools
import random
from fractions import Fraction as Fr

from kvm import gen
from kvm.iso import Iso, perm_parity
from kvm.compare import coef_equal, coef_is_zero, show

META = {
    'level': 'exploration',
    'rule': ('one case = (configuration incl. custom basis / graded, construction form, supplied coefficient table, value kind). The table '
             '(blade spelling -> value, each blade at most once) is pushed through one construction form (keys+values with int / name / mixed keys, '
             'mapping, keyword blades with canonical / permuted / mixed spellings, grades= value lists, name=, convenience constructors, '
             'fromkeysvalues, full value list) and read back through getattr with every permutation of every blade name, items(), in, grade(), '
             'asfullmv(True/False), map (1 and 2 arguments), filter (1, 2 arguments, default), keys()/values(); the harness-side table with its '
             'own parity function is the oracle. Inconsistent input (length mismatch, keys outside the declared grades, invalid grades, '
             'incomplete grades in graded mode) must raise. Distinct = distinct (config, form, table spellings, value kind).'),
    'assumptions': ['harness permutation parity (kvm/iso.py)'],
}
SHARD_DEADLINE = {'quick': 300, 'thorough': 3300}
FORMS = ['keys-int', 'keys-name', 'keys-mixed', 'mapping-int', 'mapping-name', 'mapping-permuted-name', 'keys-permuted-name', 'kw-canonical', 'kw-permuted', 'kw-mixed', 'grades-values',
         'convenience-values', 'convenience-kw', 'convenience-name', 'name', 'fromkeysvalues', 'full-values']
STRICT_FORMS = {'convenience-values', 'convenience-name', 'grades-values', 'full-values', 'fromkeysvalues', 'name'}
BAD = ['length-mismatch', 'length-mismatch-grades', 'keys-outside-grades', 'kw-outside-grades', 'invalid-grade', 'negative-grade',
       'graded-incomplete-keys', 'graded-incomplete-mapping', 'graded-incomplete-kw', 'graded-incomplete-name', 'graded-incomplete-fromkw-perm',
       'kw-blade-outside-algebra', 'repeated-grade', 'int-key-outside-algebra', 'kw-same-blade-twice', 'kw-with-values']
KINDS = ['int', 'frac', 'float', 'str', 'sympy', 'ndarray', 'nd-complex', 'nd-int64', 'nd-float32']


def floors(tier):
    f = {'distinct_nontrivial': 2000 if tier == 'quick' else 40000, 'getattr_reads': 30000, 'permuted_spelling_reads': 10000,
         'items_reads': 2000, 'contains_reads': 4000, 'grade_reads': 2000, 'asfullmv_reads': 2000, 'map_reads': 2000, 'filter_reads': 3000,
         'inconsistent_inputs_tried': 400, 'inconsistent_inputs_raised': 300, 'custom_basis_cases': 300, 'graded_cases': 200,
         'even_permuted_keyword_spellings': 50, 'odd_permuted_keyword_spellings': 50, 'twin_start_index_algebras': 5}
    for fm in FORMS:
        f['form_' + fm] = 80 if 'permuted-name' not in fm else 0
    return f


def plan(tier, seed):
    rng = random.Random(f'C15-plan-{seed}')
    cfgs = [{'p': 2, 'q': 0, 'r': 0}, {'p': 3, 'q': 0, 'r': 0}, {'p': 2, 'q': 0, 'r': 1}, {'p': 1, 'q': 1, 'r': 1}, {'p': 4, 'q': 0, 'r': 0},
            {'p': 3, 'q': 0, 'r': 1}, {'p': 1, 'q': 0, 'r': 0}, {'named': '2DPGA'}, {'named': '3DPGA'},
            {'p': 3, 'q': 0, 'r': 0, 'opts': {'graded': True}}, {'p': 2, 'q': 0, 'r': 1, 'opts': {'graded': True}},
            {'p': 2, 'q': 0, 'r': 0, 'opts': {'graded': True}}, {'p': 2, 'q': 1, 'r': 0, 'start_index': 0}, {'signature': [1, -1, 0], 'start_index': 2}]
    # start indices that make generator labels hexadecimal letters (a..f, among them the letter 'e' that also prefixes every blade name),
    # and start indices for which str(2**d) spells a blade of the algebra
    cfgs += [{'p': 3, 'q': 1, 'r': 1, 'start_index': 10}, {'p': 2, 'q': 0, 'r': 0, 'start_index': 13}, {'p': 2, 'q': 1, 'r': 0, 'start_index': 12},
             {'p': 2, 'q': 0, 'r': 0, 'start_index': 3}, {'p': 2, 'q': 0, 'r': 1, 'start_index': 6}, {'p': 1, 'q': 0, 'r': 0, 'start_index': 2}]
    cfgs += [gen.random_custom_cfg(rng, rng.choice((2, 3, 3, 4))) for _ in range(10 if tier == 'quick' else 60)]
    if tier == 'thorough':
        cfgs += gen.pqr_all(1, 4)[::2] + [dict(c, opts={'graded': True}) for c in gen.pqr_all(2, 4)[::3]]
    per = 50 if tier == 'quick' else 500
    U = [{'cfg': c, 'per_form': per} for c in cfgs]
    rng.shuffle(U)
    return [{'units': part} for part in gen.split(U, 16 if tier == 'quick' else 64)]


def value_of(rng, kind, i):
    import sympy
    import numpy as np
    if kind == 'int':
        return gen.small_int(rng, -5, 5, nonzero=True)
    if kind == 'frac':
        return gen.small_frac(rng, nonzero=True)
    if kind == 'float':
        return rng.randint(1, 40) / 8.0
    if kind == 'str':
        return f'u{i}*2 + 1'
    if kind == 'sympy':
        return sympy.Symbol(f's{i}') + 1
    if kind == 'ndarray':
        return np.array([rng.randint(1, 9) / 2.0, rng.randint(-9, -1) / 2.0])
    # rows of ONE two-dimensional numpy array that is handed over as the value container (the multivector is then array-backed):
    # dtypes that do not fit into float64 must be read back unchanged as well
    if kind == 'nd-complex':
        return np.array([complex(rng.randint(1, 9), rng.randint(1, 9)), complex(rng.randint(-9, -1), rng.randint(1, 9)) / 2])
    if kind == 'nd-int64':
        return np.array([2 ** 53 + 2 * rng.randint(1, 99) + 1, -(2 ** 60) - 2 * rng.randint(1, 99) - 1], dtype=np.int64)
    if kind == 'nd-float32':
        return np.array([rng.randint(1, 9) / 2.0, rng.randint(-9, -1) / 4.0], dtype=np.float32)
    raise KeyError(kind)


def exact_int_mismatch(a, b):
    """True if both are integer-valued arrays/numbers and differ as Python integers (float64 comparisons round beyond 2**53)."""
    import numpy as np
    try:
        A, B = np.asarray(a), np.asarray(b)
        if A.dtype.kind not in 'iu' and B.dtype.kind not in 'iu':
            return False
        A, B = np.broadcast_arrays(A, B)
        return [int(x) for x in A.ravel()] != [int(y) for y in B.ravel()]
    except Exception:
        return False


def expected_value(v):
    import sympy
    return sympy.sympify(v) if isinstance(v, str) else v


def neg(v):
    return -v


def run_shard(shard, ctx):
    for unit in shard['units']:
        cfg = unit['cfg']
        name = gen.cfg_str(cfg)
        alg = gen.make_or_skip(ctx, cfg)
        if alg is None:
            continue
        iso = Iso(alg)
        ctx.count('algebras')
        # a twin algebra that differs in the start index only lives in the same process and is used alternately
        twin = None
        if not cfg.get('basis') and not cfg.get('named'):
            tcfg = dict(cfg, start_index=(gen.effective_start(cfg) + 1) % 3)
            twin_alg = gen.make_or_skip(ctx, tcfg)
            if twin_alg is not None:
                twin = (twin_alg, Iso(twin_alg), tcfg, gen.cfg_str(tcfg))
                ctx.count('twin_start_index_algebras')
        for form in FORMS:
            for j_ in range(unit['per_form']):
                if ctx.out_of_time():
                    ctx.count('cases_skipped_out_of_time')
                    return
                if twin is not None and j_ % 3 == 0:
                    good_case(ctx, twin[0], twin[1], twin[2], twin[3], form)
                good_case(ctx, alg, iso, cfg, name, form)
        for what in BAD:
            for _ in range(max(2, unit['per_form'] // 4)):
                bad_case(ctx, alg, iso, cfg, name, what)


def spell(rng, alg, canon_name, mode):
    """Return (spelling, parity relative to the canonical blade)."""
    letters = list(canon_name[1:])
    if mode == 'canonical' or len(letters) < 2:
        return canon_name, 1
    perm = letters[:]
    for _ in range(5):
        rng.shuffle(perm)
        if perm != letters:
            break
    idx = [letters.index(c) for c in perm]
    return 'e' + ''.join(perm), perm_parity(idx)


def good_case(ctx, alg, iso, cfg, name, form):
    rng = ctx.rng
    d = alg.d
    graded = bool(cfg.get('opts', {}).get('graded'))
    canon_names = list(alg.canon2bin)
    kind = rng.choice(KINDS)
    if form == 'fromkeysvalues' and kind == 'str':
        kind = 'frac'      # fromkeysvalues takes values as they are; strings are only sympified by the constructor
    grades = None
    ctor = None
    if form in ('grades-values', 'convenience-values', 'convenience-kw', 'convenience-name', 'name') or graded:
        # blades of complete grades
        ng = rng.randint(1, min(2, d + 1))
        grades = tuple(sorted(rng.sample(range(d + 1), ng)))
        if form.startswith('convenience'):
            choice = rng.choice(['vector', 'bivector', 'scalar', 'pseudoscalar', 'pseudovector', 'evenmv', 'oddmv', 'purevector', 'trivector',
                                 'pseudobivector'])
            gmap = {'vector': (1,), 'bivector': (2,), 'scalar': (0,), 'pseudoscalar': (d,), 'pseudovector': (d - 1,), 'trivector': (3,),
                    'pseudobivector': (d - 2,), 'evenmv': tuple(g for g in range(d + 1) if g % 2 == 0),
                    'oddmv': tuple(g for g in range(d + 1) if g % 2 == 1), 'purevector': (rng.randint(0, d),)}
            grades = gmap[choice]
            if any(g < 0 or g > d for g in grades):
                return
            ctor = choice
        # blades of those grades in the order the basis lists them (derived from canon2bin, not from kingdon's grade index tables)
        names_sel = [nm for nm in alg.canon2bin if len(nm) - 1 in grades]
        if form in ('convenience-kw',) and not graded:
            names_sel = rng.sample(names_sel, rng.randint(1, len(names_sel)))
    else:
        names_sel = rng.sample(canon_names, rng.randint(1, min(6, len(canon_names))))
        if form == 'full-values':
            names_sel = list(canon_names)
    if not names_sel:
        return
    if form == 'full-values':
        names_sel = list(canon_names)
    # supplied table
    table = []
    for i, cn in enumerate(names_sel):
        mode = 'canonical'
        if form in ('kw-permuted', 'mapping-permuted-name', 'keys-permuted-name') or (form in ('kw-mixed', 'convenience-kw') and rng.random() < 0.5):
            mode = 'permuted'
        sp, par = spell(rng, alg, cn, mode)
        v = value_of(rng, kind, i)
        table.append({'spelling': sp, 'parity': par, 'canon': cn, 'key': alg.canon2bin[cn], 'value': v})
    cid = [name, form, [t['spelling'] for t in table], kind, list(grades) if grades else None, ctor]
    if not ctx.want(cid):
        return
    order = list(range(len(table)))
    if form in ('keys-int', 'keys-name', 'keys-mixed', 'fromkeysvalues', 'mapping-int', 'mapping-name') and not graded:
        rng.shuffle(order)
    tb = [table[i] for i in order]
    expected = {}
    for t in table:
        ev = expected_value(t['value'])
        expected[t['key']] = ev if t['parity'] > 0 else neg(ev)

    def construct():
        from kingdon.multivector import MultiVector
        if kind.startswith('nd-') and form in ('keys-int', 'fromkeysvalues', 'full-values', 'grades-values', 'convenience-values'):
            import numpy as np
            ctx.count('array_backed_constructions')
            rows = np.array([t['value'] for t in (table if form in ('full-values', 'grades-values', 'convenience-values') else tb)])
            if form == 'keys-int':
                return alg.multivector(values=rows, keys=tuple(t['key'] for t in tb))
            if form == 'fromkeysvalues':
                return MultiVector.fromkeysvalues(alg, tuple(t['key'] for t in tb), rows)
            if form == 'full-values':
                return alg.multivector(values=rows)
            if form == 'grades-values':
                return alg.multivector(values=rows, grades=grades)
            f = getattr(alg, ctor)
            return f(rows, grade=grades[0]) if ctor == 'purevector' else f(rows)
        if form == 'keys-int':
            return alg.multivector(values=[t['value'] for t in tb], keys=tuple(t['key'] for t in tb))
        if form == 'keys-name':
            return alg.multivector(values=[t['value'] for t in tb], keys=tuple(t['canon'] for t in tb))
        if form == 'keys-mixed':
            return alg.multivector(values=[t['value'] for t in tb], keys=tuple(t['canon'] if i % 2 else t['key'] for i, t in enumerate(tb)))
        if form == 'mapping-int':
            return alg.multivector({t['key']: t['value'] for t in tb})
        if form == 'mapping-name':
            return alg.multivector({t['canon']: t['value'] for t in tb})
        if form == 'mapping-permuted-name':
            # kingdon may refuse permuted spellings here (recorded); if it accepts them the coefficient belongs to that spelling
            return alg.multivector({t['spelling']: t['value'] for t in tb})
        if form == 'keys-permuted-name':
            return alg.multivector(values=[t['value'] for t in tb], keys=tuple(t['spelling'] for t in tb))
        if form in ('kw-canonical', 'kw-permuted', 'kw-mixed'):
            return alg.multivector(**{t['spelling']: t['value'] for t in tb})
        if form == 'grades-values':
            return alg.multivector(values=[t['value'] for t in table], grades=grades)
        if form == 'convenience-values':
            f = getattr(alg, ctor)
            return f([t['value'] for t in table], grade=grades[0]) if ctor == 'purevector' else f([t['value'] for t in table])
        if form == 'convenience-kw':
            f = getattr(alg, ctor)
            kw = {t['spelling']: t['value'] for t in tb}
            return f(grade=grades[0], **kw) if ctor == 'purevector' else f(**kw)
        if form == 'fromkeysvalues':
            return MultiVector.fromkeysvalues(alg, tuple(t['key'] for t in tb), [t['value'] for t in tb])
        if form == 'full-values':
            return alg.multivector(values=[t['value'] for t in table])
        raise KeyError(form)

    if form == 'convenience-name':
        nm = rng.choice(['a', 'B', 'x1'])

        def construct():     # noqa: F811
            f = getattr(alg, ctor)
            return f(name=nm, grade=grades[0]) if ctor == 'purevector' else f(name=nm)
        import sympy
        expected = {t['key']: sympy.Symbol(f'{nm}{alg.bin2canon[t["key"]][1:]}') for t in table}
        kind = 'symbolic-name'
    if form == 'name':
        nm = rng.choice(['a', 'B', 'x1'])
        how = rng.choice(['grades', 'keys', 'plain'])

        def construct():     # noqa: F811
            if how == 'grades':
                return alg.multivector(name=nm, grades=grades)
            if how == 'keys':
                return alg.multivector(name=nm, keys=tuple(t['key'] for t in table))
            return alg.multivector(name=nm)
        import sympy
        if how == 'plain':
            keys_exp = alg.indices_for_grades[tuple(range(d + 1))]
        else:
            keys_exp = [t['key'] for t in table]
        expected = {k: sympy.Symbol(f'{nm}{alg.bin2canon[k][1:]}') for k in keys_exp}
        kind = 'symbolic-name'
    st, mv = ctx.guarded(20, construct)
    wit = dict(config=cfg, form=form, constructor=ctor, grades=list(grades) if grades else None, value_kind=kind,
               supplied=[[t['spelling'], show(t['value'], 60)] for t in tb])
    if st != 'ok':
        if st == 'exc':
            # a constructor that raises builds nothing and therefore drops nothing silently: recorded, not judged (DESIGN 2.5)
            ctx.note_raised(mv, form)
            if form in STRICT_FORMS:
                # complete, consistent input in a form kingdon never refuses on the unchanged tree (value lists of exactly the right length,
                # names, integer keys): "however a multivector is built" has nothing to read back if building it raises
                ctx.count('form_' + form)
                ctx.case(cid)
                ctx.violation('consistent input was rejected', cid, error=f'{type(mv).__name__}: {str(mv)[:160]}', **wit)
            else:
                ctx.count('consistent_input_rejected_recorded_not_judged')
        return
    ctx.count('form_' + form)
    if cfg.get('basis') or cfg.get('named'):
        ctx.count('custom_basis_cases')
    if graded:
        ctx.count('graded_cases')
    for t in table:
        if t['spelling'] != t['canon']:
            ctx.count('even_permuted_keyword_spellings' if t['parity'] > 0 else 'odd_permuted_keyword_spellings')
    ctx.case(cid)
    if ctx.evaluations % 250 == 1:
        ctx.sample({'config': name, 'form': form, 'supplied': wit['supplied'], 'stored_keys': list(mv.keys())})
    problems = read_back(ctx, alg, iso, mv, expected)
    if problems:
        ctx.violation('read-back differs from the supplied coefficients', cid, problems=problems[:8],
                      stored=[[alg.bin2canon.get(k, k), show(v, 50)] for k, v in zip(mv.keys(), mv.values())][:12],
                      dropped_blades=[alg.bin2canon[k] for k in expected if k not in mv.keys() and not coef_is_zero(expected[k])], **wit)


def read_back(ctx, alg, iso, mv, expected):
    """expected: {kingdon key: value}. Returns list of problems."""
    rng = ctx.rng
    d = alg.d
    P = []
    keys = tuple(mv.keys())
    vals = list(mv.values())
    if len(keys) != len(vals):
        P.append(['keys/values length', len(keys), len(vals)])
    if len(set(keys)) != len(keys):
        P.append(['duplicate keys', list(keys)])
    # items(): every stored item equals the supplied value (or 0), every supplied non-zero coefficient is stored
    items = dict(zip(keys, vals))
    ctx.count('items_reads', len(items))
    for k, v in items.items():
        if not coef_equal(v, expected.get(k, 0)) or exact_int_mismatch(v, expected.get(k, 0)):
            P.append(['items', alg.bin2canon.get(k, k), show(v, 50), show(expected.get(k, 0), 50)])
    for k, v in expected.items():
        ctx.count('contains_reads', 2)
        present_i = k in mv
        present_n = alg.bin2canon[k] in mv
        if present_i != present_n:
            P.append(['in differs between int and name', alg.bin2canon[k]])
        if not present_i and not coef_is_zero(v):
            P.append(['supplied coefficient not stored', alg.bin2canon[k], show(v, 50)])
    for k in alg.bin2canon:
        if (k in mv) != (k in keys):
            P.append(['in', alg.bin2canon[k]])
    # getattr with every spelling
    for k, cn in alg.bin2canon.items():
        letters = cn[1:]
        perms = list(itertools.permutations(range(len(letters)))) if len(letters) <= 4 else [tuple(range(len(letters)))]
        if len(perms) > 6 and rng.random() < 0.7:
            perms = rng.sample(perms, 6)
        for p in perms:
            sp = 'e' + ''.join(letters[i] for i in p)
            par = perm_parity(list(p))
            try:
                got = getattr(mv, sp)
            except Exception as e:
                ctx.note_raised(e, 'getattr')
                continue
            ctx.count('getattr_reads')
            if sp != cn:
                ctx.count('permuted_spelling_reads')
            want = expected.get(k, 0)
            if par < 0:
                want = -want
            if not coef_equal(got, want):
                P.append(['getattr', sp, show(got, 50), show(want, 50)])
    # names that are not blades of this algebra (generators of a neighbouring start index): performed for the history they create
    # in whatever kingdon shares between Algebra instances; a non-blade reads as 0 or raises, neither is judged
    foreign_names = []
    for s_ in (alg.start_index + 1, max(alg.start_index - 1, 0)):
        labels = gen.default_names(d, s_)
        for g_ in (2, 3):
            for combo in itertools.combinations(labels, g_):
                foreign_names.append('e' + ''.join(reversed(combo)))      # a permuted spelling that is legal in the neighbouring algebra
    for foreign in foreign_names[:24]:
        if foreign in alg.canon2bin:
            continue
        try:
            getattr(mv, foreign)
            ctx.count('foreign_name_reads')
        except Exception:
            ctx.count('foreign_name_reads')
    # a name that contains a generator the algebra does not have is no blade of it: if reading it returns at all, it reads 0
    own = gen.default_names(d, alg.start_index)
    outside = [hex(alg.start_index + d + j)[2:] for j in range(3)] + ([hex(alg.start_index - 1)[2:]] if alg.start_index >= 1 else [])
    outside = [o for o in outside if len(o) == 1 and o not in own]
    for o in outside:
        for nm_out in ['e' + o] + (['e' + ''.join(sorted([rng.choice(own), o]))] if own else []):
            if nm_out in alg.canon2bin:
                continue
            try:
                got_out = getattr(mv, nm_out)
            except Exception:
                ctx.count('outside_generator_reads_raised')
                continue
            ctx.count('outside_generator_reads')
            if not coef_is_zero(got_out):
                P.append(['a name with a generator outside the algebra reads a coefficient', nm_out, show(got_out, 50)])
    # grade()
    for _ in range(2):
        gs = tuple(sorted(rng.sample(range(d + 1), rng.randint(0, d + 1))))
        try:
            g = mv.grade(*gs) if rng.random() < 0.5 else mv.grade(gs)
        except Exception as e:
            P.append(['grade raised', list(gs), repr(e)[:80]])
            continue
        ctx.count('grade_reads')
        want = {k: v for k, v in items.items() if bin(k).count('1') in gs}
        got = dict(zip(g.keys(), g.values()))
        if set(got) != set(want) or any(not coef_equal(got[k], want[k]) for k in want):
            P.append(['grade', list(gs), sorted(got), sorted(want)])
    # asfullmv
    for canonical in (True, False):
        try:
            f = mv.asfullmv(canonical=canonical)
        except Exception as e:
            P.append(['asfullmv raised', canonical, repr(e)[:80]])
            continue
        ctx.count('asfullmv_reads')
        fk = tuple(f.keys())
        want_keys = tuple(alg.canon2bin.values()) if canonical else tuple(range(len(alg)))
        if fk != want_keys:
            P.append(['asfullmv keys', canonical, list(fk)[:8]])
        for k, v in zip(fk, f.values()):
            if not coef_equal(v, expected.get(k, 0)) or exact_int_mismatch(v, expected.get(k, 0)):
                P.append(['asfullmv', canonical, alg.bin2canon.get(k, k), show(v, 40), show(expected.get(k, 0), 40)])
    # map
    try:
        m1 = mv.map(lambda v: v * 3)
        m2 = mv.map(lambda k, v: v * (k + 1))
        ctx.count('map_reads', 2)
        if tuple(m1.keys()) != keys or any(not coef_equal(a, b * 3) for a, b in zip(m1.values(), vals)):
            P.append(['map-1arg'])
        if tuple(m2.keys()) != keys or any(not coef_equal(a, b * (k + 1)) for a, b, k in zip(m2.values(), vals, keys)):
            P.append(['map-2arg'])
    except Exception as e:
        P.append(['map raised', repr(e)[:80]])
    # map / filter with callables that are not plain Python functions (no __code__): one-argument converters applied to each value
    import functools, operator
    from fractions import Fraction as _Fr

    class _Times3:
        def __call__(self, v):
            return v * 3
    plain_ints = bool(vals) and all(type(v) is int for v in vals)
    convs = [('functools.partial(operator.mul, 3)', functools.partial(operator.mul, 3), lambda v: v * 3), ('callable object', _Times3(), lambda v: v * 3)]
    if plain_ints:
        convs += [('Fraction', _Fr, _Fr), ('complex', complex, complex), ('round', round, round), ('float', float, float), ('abs', abs, abs)]
    for label, fn, model in convs:
        try:
            mc = mv.map(fn)
            ctx.count('map_reads_codeless_callable')
            if tuple(mc.keys()) != keys or any(not (coef_equal(a, model(b)) and (not plain_ints or a == model(b))) for a, b in zip(mc.values(), vals)):
                P.append(['map with ' + label, [show(v, 30) for v in list(mc.values())[:4]], [show(model(b), 30) for b in vals[:4]]])
        except Exception as e:
            P.append(['map with ' + label + ' raised', repr(e)[:80]])
    if plain_ints:
        for label, fn in (('complex', complex), ('bool', bool), ('Fraction', _Fr)):
            try:
                fc = mv.filter(fn)
                ctx.count('filter_reads_codeless_callable')
                wantc = {k: v for k, v in zip(keys, vals) if v != 0}
                if set(fc.keys()) != set(wantc) or any(not coef_equal(v, wantc[k]) for k, v in zip(fc.keys(), fc.values())):
                    P.append(['filter with ' + label, sorted(fc.keys()), sorted(wantc)])
            except Exception as e:
                P.append(['filter with ' + label + ' raised', repr(e)[:80]])
    # filter
    try:
        pick = set(rng.sample(list(keys), len(keys) // 2)) if keys else set()
        f2 = mv.filter(lambda k, v: k in pick)
        ctx.count('filter_reads')
        if set(f2.keys()) != pick or any(not coef_equal(v, items[k]) for k, v in zip(f2.keys(), f2.values())):
            P.append(['filter-2arg', sorted(f2.keys()), sorted(pick)])
        marks = {id(v): (i % 2 == 0) for i, v in enumerate(vals)}
        f1 = mv.filter(lambda v: marks.get(id(v), False))
        ctx.count('filter_reads')
        want1 = {k: v for i, (k, v) in enumerate(zip(keys, vals)) if marks[id(v)]}
        # (rows of an array-backed multivector are fresh view objects on every read: identity marks do not apply to them)
        if len(marks) == len(vals) and not hasattr(mv.values(), 'dtype') and (set(f1.keys()) != set(want1) or any(not coef_equal(v, want1[k]) for k, v in zip(f1.keys(), f1.values()))):
            P.append(['filter-1arg', sorted(f1.keys()), sorted(want1)])
        if not any(hasattr(v, 'shape') for v in vals):
            f0 = mv.filter()
            ctx.count('filter_reads')
            for k, v in zip(f0.keys(), f0.values()):
                if not coef_equal(v, expected.get(k, 0)):
                    P.append(['filter-default changed a value', alg.bin2canon.get(k, k)])
            for k, v in items.items():
                if k not in f0.keys() and not coef_is_zero(v):
                    P.append(['filter-default dropped a non-zero coefficient', alg.bin2canon.get(k, k), show(v, 40)])
    except Exception as e:
        P.append(['filter raised', repr(e)[:80]])
    return P


def bad_case(ctx, alg, iso, cfg, name, what):
    """Inconsistent input must raise (any exception); returning a multivector is the violation."""
    rng = ctx.rng
    d = alg.d
    graded = bool(cfg.get('opts', {}).get('graded'))
    canon = tuple(alg.canon2bin.values())
    if what.startswith('graded') and not graded:
        return
    if d < 2 and what in ('keys-outside-grades', 'kw-outside-grades') or d < 2 and what.startswith('graded'):
        return
    desc = None
    if what == 'length-mismatch':
        ks = gen.random_subset(rng, canon, 4, 1) if not graded else alg.indices_for_grades[(1,)]
        n = len(ks) + rng.choice((-1, 1, 2)) if len(ks) > 1 else len(ks) + 1
        if n == len(canon):
            n += 1
        desc = {'keys': list(ks), 'n_values': n}

        def f():
            return alg.multivector(values=[1] * n, keys=tuple(ks))
    elif what == 'length-mismatch-grades':
        g = rng.randint(0, d)
        n = len(alg.indices_for_grades[(g,)]) + rng.choice((1, 2))
        if n == len(canon):
            n += 1
        desc = {'grades': [g], 'n_values': n}

        def f():
            return alg.multivector(values=[1] * n, grades=(g,))
    elif what == 'keys-outside-grades':
        g = rng.randint(0, d)
        outside = [k for k in canon if bin(k).count('1') != g]
        inside = list(alg.indices_for_grades[(g,)])
        if graded:
            g2 = rng.choice([x for x in range(d + 1) if x != g])
            ks = alg.indices_for_grades[(g2,)]
        else:
            ks = tuple(rng.sample(inside, rng.randint(0, len(inside))) + [rng.choice(outside)])
        desc = {'grades': [g], 'keys': list(ks)}

        def f():
            return alg.multivector(values=[1] * len(ks), keys=tuple(ks), grades=(g,))
    elif what == 'kw-outside-grades':
        if graded:
            return
        g = rng.randint(0, d)
        outside = [alg.bin2canon[k] for k in canon if bin(k).count('1') != g]
        nm = rng.choice(outside)
        desc = {'grades': [g], 'keyword': nm}

        def f():
            return alg.purevector(grade=g, **{nm: 2})
    elif what == 'kw-blade-outside-algebra':
        # a coefficient supplied for a blade the algebra does not have, next to valid ones: it cannot be reflected, so building a
        # multivector without it is a silently dropped coefficient
        names = gen.default_names(d, alg.start_index)
        outside = hex(alg.start_index + d + rng.randint(0, 2))[2:]
        if graded:
            valid = {alg.bin2canon[k]: 1 for k in alg.indices_for_grades[(1,)]}
        else:
            valid = {alg.bin2canon[k]: rng.randint(1, 5) for k in gen.random_subset(rng, canon, 3, 1)}
        bad_name = 'e' + (outside if rng.random() < 0.5 or d < 1 else ''.join(sorted([rng.choice(names), outside])))
        desc = {'valid_keywords': sorted(valid), 'keyword_outside_algebra': bad_name}

        def f():
            return alg.multivector(**valid, **{bad_name: 7})
    elif what == 'int-key-outside-algebra':
        # an integer key that is not one of the 2^d blades (too large, or negative), next to valid ones: no spelling can read its coefficient back
        if graded:
            valid = list(alg.indices_for_grades[(1,)]) if d >= 1 else [0]
        else:
            valid = list(gen.random_subset(rng, canon, 3, 0))
        badkey = rng.choice([2 ** d, 2 ** d + rng.randint(1, 5), 2 ** (d + 1), -1, -rng.randint(2, 2 ** d + 1)])
        ks = list(valid)
        ks.insert(rng.randint(0, len(ks)), badkey)
        how = rng.choice(('keys', 'mapping', 'vector-mapping'))
        desc = {'keys': ks, 'key_outside_algebra': badkey, 'how': how}

        def f():
            if how == 'keys':
                return alg.multivector(keys=tuple(ks), values=[2 + i for i in range(len(ks))])
            if how == 'mapping':
                return alg.multivector({k: 2 + i for i, k in enumerate(ks)})
            return alg.vector({k: 2 + i for i, k in enumerate([k for k in ks if k == badkey or bin(k).count('1') == 1])})
    elif what == 'kw-same-blade-twice':
        # two keywords that spell the same blade (canonical and permuted): both coefficients cannot be reflected
        if graded:
            return
        cands = [nm for nm in alg.canon2bin if len(nm) >= 3]
        if not cands:
            return
        nm = rng.choice(cands)
        body = list(nm[1:])
        for _ in range(10):
            perm = body[:]
            rng.shuffle(perm)
            if perm != body:
                break
        else:
            return
        other = 'e' + ''.join(perm)
        desc = {'keywords': [nm, other]}

        def f():
            return alg.multivector(**{nm: 3, other: 5})
    elif what == 'kw-with-values':
        # keyword blades next to values / keys / a mapping: documented as mutually exclusive; the keyword coefficient cannot be reflected
        if graded:
            return
        ks = gen.random_subset(rng, canon, 3, 1)
        extra = rng.choice([nm for nm in alg.canon2bin])
        how = rng.choice(('values-keys', 'mapping', 'vector-values'))
        desc = {'how': how, 'keys': list(ks), 'keyword': extra}

        def f():
            if how == 'values-keys':
                return alg.multivector([2 + i for i in range(len(ks))], tuple(ks), **{extra: 50})
            if how == 'mapping':
                return alg.multivector({k: 2 + i for i, k in enumerate(ks)}, **{extra: 50})
            nv = len(alg.indices_for_grades[(1,)])
            return alg.vector([1 + i for i in range(nv)], **{extra: 50})
    elif what == 'repeated-grade':
        # a grades tuple naming the same grade twice cannot describe a multivector: the value list would address blades twice
        g = rng.randint(0, d)
        n = 2 * len(alg.indices_for_grades[(g,)])
        how = rng.choice(('values', 'name'))
        desc = {'grades': [g, g], 'how': how, 'n_values': n}

        def f():
            if how == 'values':
                return alg.multivector(values=list(range(1, n + 1)), grades=(g, g))
            return alg.multivector(name='x', grades=(g, g))
    elif what == 'invalid-grade':
        g = d + rng.randint(1, 3)
        desc = {'grades': [g]}

        def f():
            return alg.multivector(values=[], grades=(g,)) if rng.random() < 0.5 else alg.purevector(name='a', grade=g)
    elif what == 'negative-grade':
        desc = {'grades': [-1]}

        def f():
            return alg.multivector(name='a', grades=(-1,))
    elif what.startswith('graded-incomplete'):
        g = rng.choice([x for x in range(d + 1) if len(alg.indices_for_grades[(x,)]) >= 2])
        full = list(alg.indices_for_grades[(g,)])
        ks = tuple(rng.sample(full, rng.randint(1, len(full) - 1)))
        desc = {'incomplete_grade': g, 'keys': [alg.bin2canon[k] for k in ks]}
        if what == 'graded-incomplete-keys':
            def f():
                return alg.multivector(values=[1] * len(ks), keys=ks)
        elif what == 'graded-incomplete-mapping':
            def f():
                return alg.multivector({k: 1 for k in ks})
        elif what == 'graded-incomplete-kw':
            def f():
                return alg.multivector(**{alg.bin2canon[k]: 1 for k in ks})
        elif what == 'graded-incomplete-name':
            def f():
                return alg.multivector(name='a', keys=ks)
        else:
            def f():
                return alg.multivector({alg.bin2canon[k]: 1 for k in ks})
    if desc is None:
        return
    cid = [name, 'inconsistent', what, desc]
    if not ctx.want(cid):
        return
    st, out = ctx.guarded(20, f)
    if st == 'timeout':
        return
    ctx.count('inconsistent_inputs_tried')
    ctx.case(cid)
    if st == 'exc':
        ctx.count('inconsistent_inputs_raised')
        ctx.note_raised(out, 'rejected-input')
        return
    ctx.violation('inconsistent input produced a multivector instead of raising', cid, config=cfg, what=what, input=desc,
                  result_keys=[alg.bin2canon.get(k, k) for k in out.keys()] if hasattr(out, 'keys') else repr(out)[:80])

"""C12 - symbolic evaluation commutes with numeric evaluation."""
import random
from fractions import Fraction as Fr

from kvm import gen, ops
from kvm.iso import Iso
from kvm.compare import elem_diff, show_elem, mv_dict

META = {
    'level': 'exploration',
    'rule': ('one case = (configuration, operator, key patterns, partition of the coefficients into sympy symbols / rational numbers / sympified '
             'strings, assignment of rational values): rs = op(symbolic operands); rs(**values), rs(*values in name order) and sympy substitution '
             'must all equal op(numeric operands holding those values) as elements (exact rationals). Symbols are named so that name order, '
             'creation order and key order differ (x10 < x2 lexicographically); results are not symmetric in the symbols because every '
             'coefficient gets its own value. A blade dropped by the automatic simplification shows up as a missing non-zero coefficient after '
             'substitution. Numeric ZeroDivisionError = pole, case skipped. Distinct = distinct (config, op, keys, partition).'),
    'assumptions': ['numeric evaluation with Fractions is the specification', 'sympy substitution/arithmetic is trusted'],
}
SHARD_DEADLINE = {'quick': 400, 'thorough': 3400}
CASE_TIMEOUT = {'quick': 25, 'thorough': 90}
NAMES = ['x10', 'x2', 'x1', 'x21', 'y', 'y1', 'z3', 'w', 'A', 'b_', 'a12', 'a1', 'B2', 'q', 'x3', 'x11', 'zz', 'm', 'k9', 'k10']
# two-step expressions whose intermediate result cancels identically in symbolic evaluation (it is then an EMPTY multivector, while
# numeric evaluation carries explicit zeros): the second step must treat "no blades" like zero
TWO_STEP = {'x:(a^a)-b': lambda a, b: (a ^ a) - b, 'x:(a-a)-b': lambda a, b: (a - a) - b, 'x:a.cp(a)+b': lambda a, b: a.cp(a) + b,
            'x:b-(a-a)': lambda a, b: b - (a - a), 'x:(a^a)*b+b': lambda a, b: (a ^ a) * b + b, 'x:(a*b-a*b)-a': lambda a, b: (a * b - a * b) - a}
ALLOPS = ops.BINARY + ops.UNARY + ['norm', 'exp'] + list(TWO_STEP)


def floors(tier):
    f = {'distinct_nontrivial': 1500 if tier == 'quick' else 80000, 'keyword_calls_compared': 400, 'positional_calls_compared': 400,
         'sympy_subs_compared': 400, 'mixed_partitions': 150, 'all_symbolic': 50, 'string_coefficients': 40,
         'name_order_differs_from_key_order': 200, 'blades_dropped_by_simplification_recorded': 20, 'graded_mode_cases': 100, 'sympy_number_coefficients': 60, 'negated_pair_coefficients': 60}
    for o in ALLOPS:
        f['op_' + o] = 20 if tier == 'quick' else 100
    return f


def plan(tier, seed):
    rng = random.Random(f'C12-plan-{seed}')
    if tier == 'quick':
        cfgs = gen.sig_orderings(1, 2)[::2] + rng.sample(gen.sig_orderings(3, 3), 9) + [gen.random_custom_cfg(rng, rng.choice((2, 3))) for _ in range(3)]
        cfgs += [{'named': '2DPGA'}, {'p': 3, 'q': 0, 'r': 0, 'opts': {'cse': False}}]
        cfgs += [{'p': 3, 'q': 0, 'r': 0, 'opts': {'graded': True}}, {'p': 2, 'q': 0, 'r': 1, 'opts': {'graded': True}}, {'p': 2, 'q': 1, 'r': 0, 'opts': {'graded': True}}]
        cfgs += [{'p': 2, 'q': 1, 'r': 0, 'opts': {'wrapper': 'identity'}}, {'p': 2, 'q': 0, 'r': 1, 'opts': {'wrapper': 'wraps'}}]
        per = 8
        nshards = 16
    else:
        cfgs = gen.sig_orderings(1, 3) + [gen.random_custom_cfg(rng, rng.choice((2, 3))) for _ in range(20)] + gen.NAMED[:2]
        cfgs += [dict(c, opts={'cse': False}) for c in rng.sample(gen.sig_orderings(2, 3), 6)]
        cfgs += [dict(c, opts={'graded': True}) for c in gen.pqr_all(2, 3)]
        cfgs += [dict(c, opts={'wrapper': w}) for c, w in zip(rng.sample(gen.sig_orderings(2, 3), 6), ['identity', 'wraps'] * 3)]
        per = 60
        nshards = 64
    U = [{'cfg': c, 'per_op': per} for c in cfgs]
    rng.shuffle(U)
    return [{'units': part} for part in gen.split(U, nshards)]


def run_shard(shard, ctx):
    for unit in shard['units']:
        cfg = unit['cfg']
        name = gen.cfg_str(cfg)
        alg = gen.make_or_skip(ctx, cfg)
        if alg is None:
            continue
        ctx.count('algebras')
        for op in ALLOPS:
            for _ in range(unit['per_op']):
                if ctx.out_of_time():
                    ctx.count('cases_skipped_out_of_time')
                    return
                ks = one_case(ctx, alg, cfg, name, op)
                if ks and not cfg.get('opts', {}).get('graded') and op not in ('norm', 'sqrt') and any(len(k) >= 2 for k in ks) and ctx.rng.random() < 0.3:
                    # the same blades in another stored key order, on the same algebra, straight afterwards
                    one_case(ctx, alg, cfg, name, op, force_keysets=[gen.permuted(ctx.rng, k) if len(k) >= 2 else k for k in ks])


def one_case(ctx, alg, cfg, name, op, force_keysets=None):
    import sympy
    rng = ctx.rng
    force_unit_vector = False
    to = CASE_TIMEOUT[ctx.tier]
    canon = tuple(alg.canon2bin.values())
    arity = 2 if (op in ops.BINARY or op in TWO_STEP) else 1
    composite = op in ops.COMPOSITE_BIN or op in ops.COMPOSITE_UN or op == 'norm'
    cap = 3 if composite else 4
    graded = bool(cfg.get('opts', {}).get('graded'))
    if graded and op == 'exp':
        return None     # complete grades are not simple elements in general: exp is only defined where the square is a scalar
    if graded:
        # graded mode: operands hold complete grades in canonical order
        keysets = []
        for _ in range(arity):
            gs = (0, alg.d) if op == 'sqrt' else tuple(sorted(rng.sample(range(alg.d + 1), rng.randint(1, 2))))
            ks = alg.indices_for_grades[gs]
            if len(ks) > 5:
                ks = alg.indices_for_grades[(gs[0],)]
            keysets.append(ks)
        ctx.count('graded_mode_cases')
    elif op == 'norm':
        pos = [k for k in canon if k and alg.signs[k, k] * (-1) ** ((bin(k).count('1') * (bin(k).count('1') - 1)) // 2) > 0]
        keysets = [(rng.choice(pos),)] if pos else [(0,)]
    elif op == 'exp':
        # a single non-scalar blade squares to a scalar in every algebra: exp is defined
        nonsc = [k for k in canon if k]
        keysets = [(rng.choice(nonsc),)]
        unit_pairs = [(k1, k2) for k1 in canon for k2 in canon if k1 < k2 and bin(k1).count('1') == bin(k2).count('1') == 1
                      and alg.signs[k1, k1] == alg.signs[k2, k2] != 0]
        if unit_pairs and rng.random() < 0.4:
            keysets = [rng.choice(unit_pairs)]
            force_unit_vector = True
    elif op == 'sqrt':
        nonsc = [k for k in canon if k]
        keysets = [(0, rng.choice(nonsc))]
    else:
        keysets = []
        for _ in range(arity):
            ks = gen.random_subset(rng, canon, cap, 1)
            if rng.random() < 0.3:
                ks = gen.permuted(rng, ks)
            keysets.append(ks)
    if force_keysets is not None:
        keysets = [tuple(k) for k in force_keysets]
        ctx.count('same_blades_other_key_order_followups')
    mode = rng.choice(['mixed', 'mixed', 'mixed', 'allsym', 'strings', 'shared', 'symnum', 'negpairs', 'funcs'])
    if mode == 'funcs' and (composite or op in ('sqrt', 'norm', 'exp')):
        mode = 'mixed'      # function-valued coefficients only through the polynomial operators (exact comparison up to float rounding)
    if mode == 'shared' and arity == 2:
        keysets[1] = keysets[0] if (graded or rng.random() < 0.7) else gen.permuted(rng, keysets[0])     # graded mode: canonical order only
    names = rng.sample(NAMES, sum(len(k) for k in keysets))
    sym_vals, num_vals, point = [], [], {}
    if force_unit_vector and not graded and force_keysets is None:
        # cos(t) e_i + sin(t) e_j: its square only becomes the number +-1 after simplification
        import math
        tname = names[0]
        tval = gen.small_frac(rng, nonzero=True)
        tsym = sympy.Symbol(tname)
        point[tname] = tval
        sym_vals.append([sympy.cos(tsym), sympy.sin(tsym)])
        num_vals.append([math.cos(float(tval)), math.sin(float(tval))])
        mode = 'funcs'
        ctx.count('exp_of_a_unit_vector_with_cos_sin_coefficients')
    ni = 0
    partition = [['func', 'func']] if sym_vals else []
    for ks in (keysets if not sym_vals else []):
        sv, nv, part = [], [], []
        for j, k in enumerate(ks):
            val = gen.small_frac(rng, nonzero=True)
            if op == 'sqrt':
                val = Fr(rng.choice((3, 4, 5))) if k == 0 else Fr(rng.choice((1, -1, 2)), 2)
            nm = names[ni]
            ni += 1
            kind = 'sym' if mode == 'allsym' else rng.choice(('sym', 'sym', 'num', 'str' if mode == 'strings' else 'sym'))
            if mode == 'symnum' and rng.random() < 0.5:
                kind = 'symnum'        # a sympy Rational as coefficient: a sympy object without free symbols
            if mode == 'negpairs':
                kind = 'negpair'
            if mode == 'funcs' and rng.random() < 0.6:
                kind = 'func'
            if kind == 'func':
                # a coefficient that is an elementary function of a symbol: cos(t), sin(t), exp(t), t*cos(t)
                import math
                fname = rng.choice(('cos', 'sin', 'exp', 'tcos', 'cosh'))
                tsym = sympy.Symbol(nm)
                sv.append({'cos': sympy.cos(tsym), 'sin': sympy.sin(tsym), 'exp': sympy.exp(tsym), 'tcos': tsym * sympy.cos(tsym), 'cosh': sympy.cosh(tsym)}[fname])
                point[nm] = val
                fv = float(val)
                nv.append({'cos': math.cos(fv), 'sin': math.sin(fv), 'exp': math.exp(fv), 'tcos': fv * math.cos(fv), 'cosh': math.cosh(fv)}[fname])
            elif kind == 'sym':
                sv.append(sympy.Symbol(nm))
                point[nm] = val
                nv.append(val)
            elif kind == 'str':
                # a string coefficient, sympified at construction:  "<nm>*2 + 1"
                sv.append(f'{nm}*2 + 1')
                point[nm] = val
                nv.append(val * 2 + 1)
            elif kind == 'symnum':
                sv.append(sympy.Rational(val.numerator, val.denominator))
                nv.append(val)
            elif kind == 'negpair':
                # coefficients that are exact negations of each other: +c*t and -c*t for one symbol t per operand
                t_name = names[ni - 1 - j] if j else nm
                c0 = Fr(2) if j % 2 == 0 else Fr(-2)
                point.setdefault(t_name, val)
                sv.append(c0 * sympy.Symbol(t_name) if True else None)
                nv.append(c0 * point[t_name])
            else:
                sv.append(val)
                nv.append(val)
            part.append(kind)
        if mode == 'shared' and sym_vals and len(ks) == len(keysets[0]):
            # the second operand holds the same symbols on the same blades: provokes cancellations (dropped blades)
            first = dict(zip(keysets[0], zip(sym_vals[0], num_vals[0], partition[0])))
            sv, nv, part = (list(t) for t in zip(*(first[k] for k in ks)))
        sym_vals.append(sv)
        num_vals.append(nv)
        partition.append(part)
    if not point:
        return None
    cid = [name, op, [list(k) for k in keysets], partition, sorted(point)]
    if not ctx.want(cid):
        return

    def build(vals_list, via_ctor):
        out = []
        for ks, vs in zip(keysets, vals_list):
            if via_ctor:
                out.append(alg.multivector(keys=tuple(ks), values=list(vs)))
            else:
                out.append(gen.mv_from(alg, ks, list(vs)))
        return out
    has_str = any(isinstance(v, str) for sv in sym_vals for v in sv)
    st, xs = ctx.guarded(to, build, sym_vals, has_str)
    if st != 'ok':
        if st == 'exc':
            ctx.note_raised(xs, 'construct')
        return
    xn = build(num_vals, False)
    def apply_op(*mvs):
        if op == 'norm':
            return mvs[0].norm()
        if op == 'exp':
            return mvs[0].exp()
        if op in TWO_STEP:
            return TWO_STEP[op](*mvs)
        return ops.call_op(alg, op, *mvs)
    stn, rn = ctx.guarded(to, apply_op, *xn)
    if stn != 'ok':
        if stn == 'exc':
            ctx.note_raised(rn, op + '-numeric')
            ctx.count('numeric_pole_or_error_skipped')
            if not isinstance(rn, ZeroDivisionError) and len(ctx.notes) < 6:
                ctx.notes.append(f'numeric evaluation raised {type(rn).__name__}: {str(rn)[:160]} | {name} {op} keys {[list(k) for k in keysets]} values {[[str(v) for v in nv] for nv in num_vals]}')
        return
    sts, rs = ctx.guarded(to * 2, apply_op, *xs)
    if sts == 'timeout':
        ctx.count('symbolic_timeouts')
        return
    wit = dict(config=cfg, op=op, keys=[list(k) for k in keysets], partition=partition,
               symbolic_operands=[[str(v) for v in sv] for sv in sym_vals], point={k: str(v) for k, v in point.items()})
    if sts == 'exc':
        ctx.note_raised(rs, op + '-symbolic')
        # the operator returned a value on the numeric operands: with symbols in their place it has to return one too
        ctx.count('op_' + op)
        ctx.case(cid)
        ctx.violation('operator raises on symbolic operands although it returns on the numeric operands holding the same values', cid + ['symbolic-raises'],
                      error=f'{type(rs).__name__}: {str(rs)[:160]}', **wit)
        return
    want = mv_dict(rn)
    ctx.count('op_' + op)
    ctx.count({'mixed': 'mixed_partitions', 'allsym': 'all_symbolic', 'strings': 'string_coefficients', 'shared': 'shared_symbol_operands', 'symnum': 'sympy_number_coefficients', 'negpairs': 'negated_pair_coefficients', 'funcs': 'function_valued_coefficients'}[mode]
              if mode != 'mixed' or any('num' in p for p in partition) else 'all_symbolic')
    ctx.case(cid)
    if ctx.evaluations % 60 == 1:
        ctx.sample({k: wit[k] for k in ('op', 'keys', 'symbolic_operands', 'point')} | {'config': name, 'result_keys': list(rs.keys())})
    free = sorted(rs.free_symbols, key=lambda s: s.name)
    fnames = [s.name for s in free]
    key_order_names = [str(v) for sv in sym_vals for v in sv if not isinstance(v, (Fr, int, str))]
    if fnames != [n for n in key_order_names if n in fnames]:
        ctx.count('name_order_differs_from_key_order')
    dropped = [k for k in want if k not in rs.keys()]
    if dropped:
        ctx.count('blades_dropped_by_simplification_recorded', len(dropped))

    # transcendental functions take floats, not Fractions
    cv = (lambda v: float(v)) if mode == 'funcs' else (lambda v: v)

    def compare(label, got):
        bad = elem_diff(mv_dict(got), want)
        if bad:
            ctx.violation(f'symbolic result after {label} differs from numeric evaluation', cid + [label],
                          free_symbols=fnames, symbolic_result=show_elem(mv_dict(rs), 500),
                          got=show_elem({k: mv_dict(got).get(k, 0) for k in bad[:4]}),
                          expected=show_elem({k: want.get(k, 0) for k in bad[:4]}), blades=[alg.bin2canon[k] for k in bad[:6]], **wit)
    if free:
        kw_order = list(fnames)
        rng.shuffle(kw_order)       # keywords bind by name, whatever order the caller writes them in
        st1, g1 = ctx.guarded(to, lambda: rs(**{n: cv(point[n]) for n in kw_order}))
        if st1 == 'ok':
            ctx.count('keyword_calls_compared')
            compare('keyword call', g1)
        elif st1 == 'exc':
            ctx.note_raised(g1, 'kwcall')
            if not isinstance(g1, ZeroDivisionError):
                ctx.violation('calling the symbolic result raises', cid + ['kw'], error=repr(g1)[:200], free_symbols=fnames, **wit)
        # keywords bind BY NAME: a keyword that is not one of the free symbols cannot be bound to anything
        if rng.random() < 0.3:
            wrong = dict((n, cv(point[n])) for n in fnames)
            victim = rng.choice(fnames)
            wrong['k_not_a_symbol' if rng.random() < 0.5 else victim + '9'] = wrong.pop(victim)
            stw, gw = ctx.guarded(to, lambda: rs(**wrong))
            ctx.count('keyword_calls_with_a_foreign_name')
            if stw == 'ok':
                ctx.violation('a keyword that is not a free symbol of the multivector was bound to one (keywords bind by position)', cid + ['kw-foreign'],
                              free_symbols=fnames, keywords=sorted(wrong), returned=show_elem(mv_dict(gw)) if hasattr(gw, 'keys') else repr(gw)[:80], **wit)
        st2, g2 = ctx.guarded(to, lambda: rs(*[cv(point[n]) for n in fnames]))
        if st2 == 'ok':
            ctx.count('positional_calls_compared')
            compare('positional call in name order', g2)
        elif st2 == 'exc':
            ctx.note_raised(g2, 'poscall')
    # the operands themselves are symbolic multivectors too (stored in whatever key order they were built with): calling one
    # with the values must give the numeric operand, blade by blade
    for j, (xsym, xnum) in enumerate(zip(xs, xn)):
        fs = sorted(getattr(xsym, 'free_symbols', ()), key=lambda s: s.name)
        if not fs:
            continue
        stc, gc = ctx.guarded(to, lambda: xsym(**{s.name: cv(point[s.name]) for s in fs}))
        if stc == 'ok':
            ctx.count('operand_calls_compared')
            if tuple(xsym.keys()) != tuple(sorted(xsym.keys())):
                ctx.count('operand_calls_with_noncanonical_key_order')
            gd = mv_dict(gc) if hasattr(gc, 'keys') else {0: gc}
            bad = elem_diff(gd, mv_dict(xnum))
            if bad:
                ctx.violation('calling a symbolic operand with its values does not give the numeric operand', cid + ['operand-call', j],
                              stored_keys=list(xsym.keys()), got=show_elem(gd), expected=show_elem(mv_dict(xnum)), **wit)
        elif stc == 'exc':
            ctx.note_raised(gc, 'operand-call')
    st3, g3 = ctx.guarded(to, lambda: rs.map(lambda v: sympy.sympify(v).subs({sympy.Symbol(n): sympy.Rational(p.numerator, p.denominator)
                                                                                 for n, p in point.items()})))
    if st3 == 'ok':
        ctx.count('sympy_subs_compared')
        compare('sympy substitution', g3)
    elif st3 == 'exc':
        ctx.note_raised(g3, 'subs')
    return keysets

"""C20 - the graph widget payload reflects the multivectors it is given."""
import copy
import hashlib
import os
import random
from fractions import Fraction as Fr

from kvm import gen
from kvm.iso import Iso
from kvm.compare import coef_equal
from kvm.runner import Inconclusive, REPO

META = {
    'level': 'exploration',
    'rule': ('scene cases = (default-basis algebra d<=4, generated subject tree over colour ints, strings, multivectors (sparse, dense canonical, '
             'dense binary layout, permuted keys, array-valued with ndarray or list-of-arrays backing, float64 / int / float32 dtypes), nested '
             'lists/tuples, zero-argument callables (nested, single-callable form), camera option): the synced traits subjects / options are decoded '
             'by a Python transcription of graph.js toElement/decode (pinned to the text of those lines) and must reproduce, leaf by leaf in '
             'depth-first order, every reachable multivector\'s coefficient on every blade (array-valued ones element by element); signature, '
             'cayley and key2idx must describe the algebra. Drag cases = random sequences of front-end updates (one {mv: full canonical list} per '
             'draggable point) assigned to widget.draggable_points: exactly the coefficients of the dragged multivectors change, in place, to the '
             'values sent for those blades; subjects are re-encoded including dependent callables. Distinct = distinct scenes / drag histories.'),
    'assumptions': ['the transcription of the decoding lines of graph.js (ganja.js itself cannot run here)', 'front end sends {mv: [...all 2^d coefficients in canonical order]} per dragged point'],
}
SHARD_DEADLINE = {'quick': 300, 'thorough': 3300}
# text of the decoding lines of graph.js this transcription was written against
PINNED_JS = [
    "var _values = o['mv'] instanceof DataView?new Float64Array(o['mv'].buffer):o['mv'];",
    "if ('keys' in o) {",
    "var values = Array(Object.keys(key2idx).length).fill(0);",
    "o['keys'].forEach((k, j)=>values[key2idx[k]] = _values[j]);",
    "return new Element(values);",
    "return new Element(_values);",
    "var decode = x=>typeof x === 'object' && 'mv' in x?toElement(x):Array.isArray(x)?x.map(decode):x;",
    "var encode = x=>x instanceof Element?({mv:[...x]}):x?.map?x.map(encode):x;",
    "model.set('draggable_points', encode(draggable_points_idxs.map(i=>canvas.value[i])));",
]


def floors(tier):
    return {'distinct_nontrivial': 500 if tier == 'quick' else 250000, 'scenes': 350, 'multivector_leaves_decoded': 2000,
            'leaves_sparse': 400, 'leaves_dense_canonical': 80, 'leaves_dense_noncanonical': 80, 'leaves_permuted_keys': 150,
            'leaves_array_valued_expanded': 150, 'leaves_ndarray_backed': 150, 'leaves_non_float64_ndarray': 40,
            'callable_subjects': 200, 'single_callable_form': 20, 'camera_options': 20, 'algebra_traits_checked': 300,
            'drag_histories': 150, 'drag_updates': 400, 'dragged_sparse_points': 200, 'dragged_dense_points': 40,
            'dependent_callables_reencoded': 100, 'root_callable_drag_histories': 40, 'points_reported_unmoved': 60, 'update_messages': 100, 'scenes_with_a_reused_callable_object': 40}


def plan(tier, seed):
    rng = random.Random(f'C20-plan-{seed}')
    cfgs = [{'p': 2, 'q': 0, 'r': 0}, {'p': 2, 'q': 0, 'r': 1}, {'p': 3, 'q': 0, 'r': 0}, {'p': 3, 'q': 0, 'r': 1}, {'p': 1, 'q': 1, 'r': 0},
            {'p': 2, 'q': 1, 'r': 0}, {'p': 4, 'q': 0, 'r': 0}, {'p': 1, 'q': 0, 'r': 1}, {'signature': [1, -1, 0]}, {'p': 3, 'q': 1, 'r': 0}]
    if tier == 'thorough':
        cfgs += gen.pqr_all(1, 4)
    n_s, n_d = (600, 300) if tier == 'quick' else (6000, 3000)
    U = []
    for c in cfgs:
        for rep in range(2 if tier == 'quick' else 3):
            U.append({'cfg': c, 'scenes': n_s // 2, 'drags': n_d // 2, 'salt': rep})
    rng.shuffle(U)
    return [{'units': part} for part in gen.split(U, 16 if tier == 'quick' else 64)]


def check_pin():
    path = os.path.join(REPO, 'kingdon', 'graph.js')
    with open(path) as f:
        text = ' '.join(f.read().split())
    for line in PINNED_JS:
        if ' '.join(line.split()) not in text:
            raise Inconclusive(f'graph.js decoding text changed ({line[:50]}...): the transcribed decoder would be stale')


# ---- transcription of graph.js --------------------------------------------------------------------

class DecodeError(Exception):
    pass


def to_element(o, key2idx):
    import numpy as np
    mv = o['mv']
    if isinstance(mv, (bytes, bytearray, memoryview)):
        b = bytes(mv)
        if len(b) % 8:
            raise DecodeError(f'byte length {len(b)} is not a multiple of 8: new Float64Array(buffer) throws')
        _values = list(np.frombuffer(b, dtype=np.float64))
    else:
        _values = list(mv)
    n = len(key2idx)
    if 'keys' in o:
        values = [0] * n
        for j, k in enumerate(o['keys']):
            kk = k if k in key2idx else str(k)
            if kk not in key2idx:
                raise DecodeError(f'key {k!r} not in key2idx')
            if j < len(_values):
                values[key2idx[kk]] = _values[j]
            else:
                values[key2idx[kk]] = None      # undefined in JS
        return ('Element', values)
    return ('Element', _values)


def decode(x, key2idx):
    if isinstance(x, dict) and 'mv' in x:
        return to_element(x, key2idx)
    if isinstance(x, (list, tuple)):
        return [decode(i, key2idx) for i in x]
    return x


def flatten(tree):
    out = []
    for i in tree:
        if isinstance(i, list):
            out.extend(flatten(i))
        else:
            out.append(i)
    return out


# ---- expected leaves ---------------------------------------------------------------------------------

def expected_leaves(obj, alg, top=False):
    """Depth-first list of leaves: ints/strings as they are, ('Element', [2^d coefficients in canonical order]) per multivector."""
    from kingdon.multivector import MultiVector
    if isinstance(obj, MultiVector):
        if len(obj.shape) > 1:
            # array-valued: one element per index of the trailing shape, in row-major order - computed here, not with itermv()
            import itertools
            import numpy as np
            canon = list(alg.canon2bin.values())
            arrs = {k: np.asarray(v) for k, v in zip(obj.keys(), obj.values())}
            out = []
            for idx in itertools.product(*(range(n) for n in obj.shape[1:])):
                out.append(('Element', [arrs[k][idx].item() if k in arrs else 0 for k in canon]))
            return out
        canon = list(alg.canon2bin.values())
        d = dict(zip(obj.keys(), obj.values()))
        return [('Element', [d.get(k, 0) for k in canon])]
    if isinstance(obj, (list, tuple)):
        out = []
        for i in obj:
            out.extend(expected_leaves(i, alg))
        return out
    if callable(obj):
        return expected_leaves(obj(), alg)
    return [obj]


def leaves_equal(a, b):
    if isinstance(a, tuple) and isinstance(b, tuple) and a[0] == b[0] == 'Element':
        if len(a[1]) != len(b[1]):
            return False
        for x, y in zip(a[1], b[1]):
            if x is None or y is None:
                return False
            try:
                if not coef_equal(float(x), float(y), 1e-12):
                    return False
            except Exception:
                return False
        return True
    if isinstance(a, tuple) or isinstance(b, tuple):
        return False
    return a == b and type(a) is type(b)


# ---- scene generation ------------------------------------------------------------------------------

class Scene:
    def __init__(self):
        self.mvs = []          # (multivector, class label)
        self.counters = {}


def rand_mv(rng, alg, scene, allow_array=True, force=None):
    import numpy as np
    canon = tuple(alg.canon2bin.values())
    n = len(canon)
    layout = force or rng.choice(['sparse', 'sparse', 'sparse', 'permuted', 'dense-canonical', 'dense-binary', 'dense-permuted', 'array-nd', 'array-list',
                                  'nd-float64', 'nd-int', 'nd-float32'])
    if not allow_array and layout in ('array-nd', 'array-list'):
        layout = 'sparse'

    def fl():
        return rng.randint(-12, 12) / 4.0
    if layout in ('sparse', 'permuted'):
        ks = gen.random_subset(rng, canon, min(5, n - 1) if n > 1 else 1, 1)
        if len(ks) == n and n > 1:
            ks = ks[:-1]
        if layout == 'permuted':
            ks = gen.permuted(rng, ks)
        vals = [fl() if rng.random() < 0.7 else rng.randint(-5, 5) for _ in ks]
    elif layout == 'dense-canonical':
        ks, vals = canon, [fl() for _ in canon]
    elif layout == 'dense-binary':
        ks = tuple(range(n))
        vals = [fl() for _ in ks]
    elif layout == 'dense-permuted':
        ks = gen.permuted(rng, canon)
        vals = [fl() for _ in ks]
    elif layout in ('array-nd', 'array-list'):
        ks = gen.random_subset(rng, canon, min(4, n), 1)
        shape = rng.choice([(2,), (3,), (2, 2), (2, 3), (3, 2, 2)])
        arrs = [np.array([fl() for _ in range(int(np.prod(shape)))]).reshape(shape) for _ in ks]
        vals = np.array(arrs) if layout == 'array-nd' else arrs
    else:
        ks = gen.random_subset(rng, canon, min(5, n), 1)
        if rng.random() < 0.25:
            ks = canon
        dt = {'nd-float64': np.float64, 'nd-int': np.int64, 'nd-float32': np.float32}[layout]
        vals = np.array([rng.randint(-9, 9) / (1 if layout == 'nd-int' else 2.0) for _ in ks]).astype(dt)
    from kingdon.multivector import MultiVector
    mv = MultiVector.fromkeysvalues(alg, tuple(ks), vals)      # keeps an ndarray backing as it is
    scene.mvs.append((mv, layout))
    return mv


def rand_tree(rng, alg, scene, depth):
    r = rng.random()
    if depth <= 0 or r < 0.45:
        kind = rng.choice(['mv', 'mv', 'mv', 'int', 'str', 'callable-mv'])
        if kind == 'int':
            return rng.choice([0xD0FFE1, 0x224488, 0, 255])
        if kind == 'str':
            return rng.choice(['A', 'label', 'p1'])
        if kind == 'callable-mv':
            m = rand_mv(rng, alg, scene)
            scene.counters['callables'] = scene.counters.get('callables', 0) + 1
            return (lambda m=m: m) if rng.random() < 0.6 else (lambda m=m: (lambda: m))
        return rand_mv(rng, alg, scene)
    if r < 0.8:
        items = [rand_tree(rng, alg, scene, depth - 1) for _ in range(rng.randint(1, 3))]
        return items if rng.random() < 0.7 else tuple(items)
    items = [rand_tree(rng, alg, scene, depth - 1) for _ in range(rng.randint(1, 3))]
    scene.counters['callables'] = scene.counters.get('callables', 0) + 1
    return lambda items=items: items


def run_shard(shard, ctx):
    check_pin()
    for unit in shard['units']:
        cfg = unit['cfg']
        name = gen.cfg_str(cfg)
        alg = gen.make_or_skip(ctx, cfg)
        if alg is None:
            continue
        iso = Iso(alg)
        ctx.count('algebras')
        for i in range(unit['scenes']):
            if ctx.out_of_time():
                return
            scene_case(ctx, alg, iso, cfg, name, i)
        for i in range(unit['drags']):
            if ctx.out_of_time():
                return
            drag_case(ctx, alg, cfg, name, i)


def describe_mv(alg, mv, label):
    import numpy as np
    vals = mv.values()
    return {'layout': label, 'keys': [alg.bin2canon[k] for k in mv.keys()],
            'values': (np.asarray(vals).tolist() if hasattr(vals, 'tolist') or (len(vals) and hasattr(vals[0], 'tolist')) else list(vals)),
            'dtype': str(getattr(vals, 'dtype', '')) or None}


def scene_case(ctx, alg, iso, cfg, name, i):
    rng = ctx.rng
    scene = Scene()
    single = rng.random() < 0.08
    subjects = [rand_tree(rng, alg, scene, rng.randint(0, 3)) for _ in range(rng.randint(1, 4))]
    if rng.random() < 0.25:
        # the same callable object occurs more than once in the scene (shared end points of several segments)
        m_ = rand_mv(rng, alg, scene, allow_array=False)
        shared_call = (lambda m_=m_: m_) if rng.random() < 0.6 else (lambda m_=m_: [m_, 0x00FF00])
        subjects += [shared_call, [shared_call, 'S'], shared_call]
        scene.counters['callables'] = scene.counters.get('callables', 0) + 3
        scene.counters['reused'] = 1
    options = {}
    if rng.random() < 0.12:
        options['camera'] = rand_mv(rng, alg, scene, allow_array=False, force=rng.choice(['sparse', 'dense-canonical', 'dense-binary']))
        options['grid'] = 1
    if single:
        inner = subjects
        subjects = [lambda inner=inner: inner]
    cid = [name, 'scene', ctx.shard.get('units') and 0, i, [lbl for _, lbl in scene.mvs]]
    cid = [name, 'scene', i, [lbl for _, lbl in scene.mvs], single]
    if not ctx.want(cid):
        return
    st, w = ctx.guarded(30, lambda: alg.graph(*subjects, **options))
    if st != 'ok':
        if st == 'exc':
            ctx.note_raised(w, 'graph')
        return
    st, payload = ctx.guarded(30, lambda: (w.subjects, w.options, w.key2idx, w.signature, w.cayley))
    if st != 'ok':
        if st == 'exc':
            ctx.note_raised(payload, 'traits')
        return
    subj, opts, key2idx, signature, cayley = payload
    ctx.count('scenes')
    if single:
        ctx.count('single_callable_form')
    if scene.counters.get('reused'):
        ctx.count('scenes_with_a_reused_callable_object')
    ctx.count('callable_subjects', scene.counters.get('callables', 0) + (1 if single else 0))
    ctx.case(cid)
    classes = {'sparse': 'leaves_sparse', 'permuted': 'leaves_permuted_keys', 'dense-canonical': 'leaves_dense_canonical',
               'dense-binary': 'leaves_dense_noncanonical', 'dense-permuted': 'leaves_dense_noncanonical', 'array-nd': 'leaves_array_valued_expanded',
               'array-list': 'leaves_array_valued_expanded', 'nd-float64': 'leaves_ndarray_backed', 'nd-int': 'leaves_non_float64_ndarray',
               'nd-float32': 'leaves_non_float64_ndarray'}
    for mv, lbl in scene.mvs:
        ctx.count(classes[lbl])
        if lbl.startswith('nd-') or lbl == 'array-nd':
            ctx.count('leaves_ndarray_backed') if lbl != 'nd-float64' else None
    if ctx.evaluations % 50 == 1:
        ctx.sample({'config': name, 'multivector_layouts_in_scene': [lbl for _, lbl in scene.mvs], 'single_callable_form': single,
                    'payload_head': repr(subj)[:300]})
    wit = dict(config=cfg, multivectors=[describe_mv(alg, mv, lbl) for mv, lbl in scene.mvs][:8], single_callable_form=single)
    # decode like the front end
    try:
        dec = flatten(decode(subj, key2idx))
    except DecodeError as e:
        offenders = offending_layouts(alg, scene, key2idx)
        ctx.violation('front end cannot decode the payload', cid, error=str(e), offending=offenders, **wit)
        return
    src = subjects[0]() if single else subjects
    exp = expected_leaves(src, alg)
    ctx.count('multivector_leaves_decoded', sum(1 for l in exp if isinstance(l, tuple)))
    if len(dec) != len(exp) or any(not leaves_equal(a, b) for a, b in zip(dec, exp)):
        first = next((j for j, (a, b) in enumerate(zip(dec, exp)) if not leaves_equal(a, b)), min(len(dec), len(exp)))
        offenders = offending_layouts(alg, scene, key2idx)
        ctx.violation('decoded subjects differ from the multivectors given', cid, n_decoded=len(dec), n_expected=len(exp), first_difference=first,
                      decoded=repr(dec[first])[:200] if first < len(dec) else None, expected=repr(exp[first])[:200] if first < len(exp) else None,
                      offending=offenders, **wit)
    # camera option
    if 'camera' in options:
        ctx.count('camera_options')
        try:
            cam = decode(opts.get('camera'), key2idx)
            want = expected_leaves(options['camera'], alg)[0]
            if not leaves_equal(cam, want):
                ctx.violation('decoded camera option differs from the multivector given', cid + ['camera'], decoded=repr(cam)[:200],
                              expected=repr(want)[:200], offending=[describe_mv(alg, options['camera'], 'camera')], **wit)
        except DecodeError as e:
            ctx.violation('front end cannot decode the camera option', cid + ['camera'], error=str(e), **wit)
        if opts.get('grid') != 1:
            ctx.violation('plain option not passed through', cid + ['grid'], options=repr(opts)[:200])
    # algebra description
    ctx.count('algebra_traits_checked')
    canon_names = list(alg.canon2bin)
    canon = list(alg.canon2bin.values())
    probs = []
    if list(signature) != [int(s) for s in alg.signature]:
        probs.append(['signature', list(signature)])
    if {int(k): v for k, v in key2idx.items()} != {k: j for j, k in enumerate(canon)}:
        probs.append(['key2idx', dict(key2idx)])
    for a, ka in enumerate(canon):
        for b, kb in enumerate(canon):
            mI, oI = iso.key2ref[ka]
            mJ, oJ = iso.key2ref[kb]
            K, oK = iso.ref2key[mI ^ mJ]
            s = oI * oJ * iso.ref.bsign(mI, mJ) * oK
            nm = alg.bin2canon[K]
            nm = '1' if nm == 'e' else nm
            want = '0' if s == 0 else ('-' if s < 0 else '') + nm
            try:
                got = cayley[a][b]
            except Exception:
                got = None
            if got != want:
                probs.append(['cayley', canon_names[a], canon_names[b], got, want])
    if probs:
        ctx.violation('signature / cayley / key2idx do not describe the algebra', cid + ['traits'], config=cfg, problems=probs[:6])


def offending_layouts(alg, scene, key2idx):
    """Which of the scene's multivectors, encoded alone, does not decode to itself (diagnosis for the witness and the classifier)."""
    from kingdon.graph import encode, walker
    out = []
    for mv, lbl in scene.mvs:
        try:
            enc = walker(encode([mv], root=True))
            dec = flatten(decode(enc, key2idx))
            exp = expected_leaves(mv, alg)
            ok = len(dec) == len(exp) and all(leaves_equal(a, b) for a, b in zip(dec, exp))
        except DecodeError:
            ok = False
        except Exception:
            ok = None
        if ok is False:
            d = describe_mv(alg, mv, lbl)
            d['dense'] = len(mv) == len(alg)
            d['canonical_order'] = tuple(mv.keys()) == tuple(alg.canon2bin.values())
            out.append(d)
    return out[:6]


def snapshot_mv(mv):
    import numpy as np
    v = mv.values()
    return (id(mv), id(v), tuple(mv.keys()), [float(x) for x in (v.tolist() if hasattr(v, 'tolist') else v)])


def drag_case(ctx, alg, cfg, name, i):
    import numpy as np
    rng = ctx.rng
    d = alg.d
    canon = tuple(alg.canon2bin.values())
    n = len(canon)
    scene = Scene()
    pga = alg.r == 1 and d in (3, 4)
    npts = rng.randint(1, 3)
    points = []
    for _ in range(npts):
        if pga:
            ks = alg.indices_for_grades[(d - 1,)]
            vals = [rng.randint(-8, 8) / 2.0 for _ in ks]
            if rng.random() < 0.3:
                order = list(range(len(ks)))
                rng.shuffle(order)
                ks = tuple(ks[j] for j in order)
            if rng.random() < 0.3:
                vals = np.array(vals)
            from kingdon.multivector import MultiVector
            p = MultiVector.fromkeysvalues(alg, tuple(ks), vals)
            scene.mvs.append((p, 'pga-point'))
        else:
            p = rand_mv(rng, alg, scene, allow_array=False, force=rng.choice(['sparse', 'sparse', 'permuted', 'dense-canonical', 'dense-binary',
                                                                              'dense-permuted', 'nd-float64']))
        points.append(p)
    others = [rand_mv(rng, alg, scene, allow_array=False, force='sparse') for _ in range(rng.randint(0, 2))]
    if pga:
        others = [o for o in others if o.grades != (d - 1,)] or []
    dep_calls = []

    def dependent():
        dep_calls.append(1)
        return points[0] + points[-1]
    subjects = [0x224488]
    for p in points:
        subjects += [p, 'P']
    for o in others:
        subjects.append([o])
    subjects.append(dependent)
    ticks = []
    clock = [1.0]

    def ticking():
        # value depends on the harness-controlled clock only (the oracle may evaluate it too); calls are counted separately
        ticks.append(1)
        return points[0] * clock[0]
    subjects.append(ticking)
    root_form = rng.random() < 0.35
    cid = [name, 'drag', i, [lbl for _, lbl in scene.mvs], root_form]
    if not ctx.want(cid):
        return
    if root_form:
        # the documented animation style: one root callable returning the whole scene
        inner_subjects = subjects
        root_calls = []
        oracle_call = [False]

        def scene_func():
            # dependent geometry computed inside the root function itself (not wrapped in a callable): it is up to date only if the
            # root function is called again after every drag / update request
            if not oracle_call[0]:
                root_calls.append(1)
            return list(inner_subjects) + [0x00AA55, [points[0] * (clock[0] + 1.0) + points[-1]]]

        def current_scene():
            oracle_call[0] = True
            try:
                return scene_func()
            finally:
                oracle_call[0] = False
        ctx.count('root_callable_drag_histories')
        st, w = ctx.guarded(30, lambda: alg.graph(scene_func))
    else:
        st, w = ctx.guarded(30, lambda: alg.graph(*subjects))
    if st != 'ok':
        if st == 'exc':
            ctx.note_raised(w, 'graph')
        return
    try:
        idxs = list(w.draggable_points_idxs)
        _ = w.subjects
        key2idx = {int(k): v for k, v in w.key2idx.items()}
    except Exception as e:
        ctx.note_raised(e, 'traits')
        return
    dragged = [w.pre_subjects[j] for j in idxs]
    if [id(x) for x in dragged] != [id(p) for p in points]:
        ctx.violation('draggable points are not the top-level multivectors', cid, config=cfg, idxs=idxs)
        return
    ctx.count('drag_histories')
    ctx.case(cid)
    wit = dict(config=cfg, points=[describe_mv(alg, p, lbl) for p, lbl in zip(points, [l for _, l in scene.mvs][:len(points)])])
    for step in range(rng.randint(1, 4)):
        before_pts = [snapshot_mv(p) for p in points]
        before_oth = [snapshot_mv(o) for o in others]
        # what the front end sends: full canonical coefficient list per dragged point; untouched blades keep the decoded value
        news = []
        moved_any = False
        really_moved = False
        for pi, p in enumerate(points):
            cur = dict(zip(p.keys(), [float(x) for x in (p.values().tolist() if hasattr(p.values(), 'tolist') else p.values())]))
            full = [cur.get(k, 0.0) for k in canon]
            stay = rng.random() < 0.35 and (moved_any or pi < len(points) - 1)      # this point is reported unchanged
            if stay:
                ctx.count('points_reported_unmoved')
            else:
                moved_any = True
            base = list(full)
            tiny = rng.random() < 0.3
            for j in ([] if stay else rng.sample(range(n), rng.randint(1, min(3, n)))):
                if canon[j] in cur:
                    if tiny:
                        # a point far from the origin nudged by a hair: the reported float differs from the stored one in the last digits only
                        big = cur[canon[j]] if abs(cur[canon[j]]) >= 1000 else rng.choice((2500.0, -2000.0, 1.0e6))
                        full[j] = big * (1 + 2.0 ** -rng.randint(18, 40)) if cur[canon[j]] == big else big
                        ctx.count('tiny_relative_moves_reported')
                    else:
                        full[j] = rng.randint(-20, 20) / 4.0
            if full != base:
                really_moved = True
            news.append({'mv': full})
        ncalls = len(dep_calls)
        nroot = len(root_calls) if root_form else 0
        st, out = ctx.guarded(30, lambda: setattr(w, 'draggable_points', news))
        if st != 'ok':
            if st == 'exc':
                ctx.note_raised(out, 'drag')
            return
        ctx.count('drag_updates')
        probs = []
        # re-evaluation is owed only when some reported coefficient really differs from the current one (otherwise nothing moved);
        # counted here, before the oracle below evaluates the same callables itself
        if really_moved:
            ctx.count('drag_updates_with_a_moved_coefficient')
            if len(dep_calls) == ncalls:
                probs.append(['dependent callable was not re-evaluated'])
            if root_form and len(root_calls) == nroot:
                probs.append(['root scene callable was not re-evaluated after the drag'])
        for p, snap, new in zip(points, before_pts, news):
            ctx.count('dragged_dense_points' if len(p) == n else 'dragged_sparse_points')
            now = snapshot_mv(p)
            if now[0] != snap[0] or now[2] != snap[2]:
                probs.append(['point replaced instead of updated in place', list(snap[2]), list(now[2])])
            if now[1] != snap[1]:
                probs.append(['value container replaced (not in place)'])
            for k, v in zip(p.keys(), now[3]):
                want = new['mv'][key2idx[k]]
                if not (v == want):          # the reported float itself is stored: exact comparison
                    probs.append(['coefficient', alg.bin2canon[k], repr(v), repr(want)])
        for o, snap in zip(others, before_oth):
            if snapshot_mv(o) != snap:
                probs.append(['an undragged multivector changed', list(snap[2])])
        # subjects re-encode the new state, including the dependent callable
        try:
            dec = flatten(decode(w.subjects, w.key2idx))
            exp = expected_leaves(current_scene() if root_form else subjects, alg)
            ctx.count('dependent_callables_reencoded')
            if len(dec) != len(exp) or any(not leaves_equal(a, b) for a, b in zip(dec, exp)):
                probs.append(['subjects after the drag do not decode to the updated state'])
        except DecodeError as e:
            probs.append(['subjects after drag not decodable', str(e)])
        # an update request from the front end re-evaluates the subjects (time-dependent callables advance)
        if rng.random() < 0.5:
            clock[0] += 1.0
            nt = len(ticks)
            try:
                w._handle_custom_msg({'type': 'update_mvs'}, [])
                dec2 = flatten(decode(w.subjects, w.key2idx))
                called = len(ticks) > nt
                exp2 = expected_leaves(current_scene() if root_form else subjects, alg)
                ctx.count('update_messages')
                if not called:
                    probs.append(['update_mvs did not re-evaluate the callables'])
                if len(dec2) != len(exp2) or any(not leaves_equal(a, b) for a, b in zip(dec2, exp2)):
                    probs.append(['subjects after update_mvs do not decode to the re-evaluated state'])
            except DecodeError as e:
                probs.append(['subjects after update_mvs not decodable', str(e)])
        if probs:
            ctx.violation('drag update was not written back correctly', cid + [step], step=step, root_callable_form=root_form, sent=[nw['mv'] for nw in news], problems=probs[:8],
                          offending=[dict(describe_mv(alg, p, 'point'), dense=len(p) == n, canonical_order=tuple(p.keys()) == canon)
                                     for p in points if len(p) == n and tuple(p.keys()) != canon], **wit)
            return

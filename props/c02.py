"""C02 - the geometric product of sparse multivectors equals the bilinear extension."""
import random
from fractions import Fraction as Fr

from kvm import gen, ops, workload
from kvm.iso import Iso
from kvm.compare import elem_diff, show_elem

META = {
    'level': 'exploration',
    'rule': ('one case = (algebra configuration, ordered key tuple of a, ordered key tuple of b): the real generated gp function '
             'for that pattern is executed on polynomial indeterminates (one per stored blade) and every coefficient polynomial '
             'is compared with the reference bilinear extension; a tenth of the cases are re-executed on ints, Fractions, floats '
             'and numpy arrays through the same cache entry. Distinct = distinct (config, keys_a, keys_b); non-trivial = the call '
             'returned and the polynomial comparison was made.'),
    'assumptions': ['kvm/refmodel.py sign rule and bilinear extension; kvm/iso.py relabelling; kvm/ring.py polynomial arithmetic',
                    'a commutative coefficient ring: FreePoly = Q[x..]; polynomial identity over Q[x..] implies identity over every commutative ring for integer-coefficient formulas'],
    'exhaustive': {'quick': False, 'thorough': False},
}
SHARD_DEADLINE = {'quick': 300, 'thorough': 3300}


def floors(tier):
    return {'distinct_nontrivial': 6000 if tier == 'quick' else 60000, 'generic_executions': 3000,
            'numeric_reexecutions': 200, 'permuted_order_cases': 200, 'empty_operand_cases': 20,
            'distinct_generated_functions': 2500, 'cse_false_cases': 100, 'wrapper_configured_cases': 300, 'graded_mode_cases': 80, 'paired_configuration_units': 6, 'short_lived_key_tuple_cases': 300}


def plan(tier, seed):
    rng = random.Random(f'C02-plan-{seed}')
    U = []
    u = workload.units_for
    d1 = gen.sig_orderings(1, 1)
    d2 = gen.sig_orderings(2, 2)
    d3 = gen.sig_orderings(3, 3)
    if tier == 'quick':
        for c in d1:
            U += u(c, 'exh_ordered')
        for c in d2:
            U += u(c, 'exh_canon', 2)
            U += u(c, 'sparse', 1, count=300, cap=4, perm=1.0)
        for c in d2[:2]:
            U += u(dict(c, opts={'cse': False}), 'exh_canon', 1)
        for c in rng.sample(d3, 16) + [{'p': 3, 'q': 0, 'r': 0}, {'p': 2, 'q': 0, 'r': 1}]:
            U += u(c, 'random', 1, count=400, cap=8)
            U += u(c, 'special', 1, cap=8)
        U += u(dict({'p': 3, 'q': 0, 'r': 0}, opts={'cse': False}), 'random', 1, count=60, cap=8)
        for c in rng.sample(gen.pqr_all(4, 4), 6) + rng.sample(gen.pqr_all(5, 5), 4):
            U += u(c, 'gradeblocks', 1, count=60, cap=10)
            U += u(c, 'sparse', 1, count=120, cap=6)
        for c in rng.sample(gen.pqr_all(6, 6), 2) + [{'signature': gen.random_sig(rng, 7)}]:
            U += u(c, 'sparse', 1, count=100, cap=5)
            U += u(c, 'highgrade', 1, count=40, cap=4)
        for _ in range(10):
            U += u(gen.random_custom_cfg(rng, rng.choice((2, 3, 3, 4))), 'random', 1, count=120, cap=6)
        for c in gen.NAMED:
            U += u(c, 'sparse', 1, count=120, cap=6)
        # default basis and custom basis of one signature in one process, same key patterns (state shared between Algebra instances)
        for a_, b_ in (({'p': 2, 'q': 0, 'r': 1}, {'named': '2DPGA'}), ({'named': '3DPGA'}, {'p': 3, 'q': 0, 'r': 1}),
                       ({'signature': [1, -1]}, {'signature': [1, -1], 'basis': ['e', 'e2', 'e1', 'e21']}),
                       ({'signature': [1, 1, 1], 'basis': ['e', 'e3', 'e1', 'e2', 'e31', 'e12', 'e32', 'e312']}, {'p': 3, 'q': 0, 'r': 0})):
            U += [dict(unit_, pair_with=b_, pseed=rng.randrange(10 ** 9)) for unit_ in u(a_, 'sparse', 1, count=60, cap=5, perm=0.2)]
        for s in (0, 2):
            U += u({'p': 2, 'q': 1, 'r': 0, 'start_index': s}, 'random', 1, count=40, cap=8)
        for c in ({'p': 3, 'q': 0, 'r': 0}, {'p': 2, 'q': 0, 'r': 1}, {'p': 3, 'q': 1, 'r': 0}, {'p': 1, 'q': 1, 'r': 1}):
            for size in (1, 2, 3):
                U += u(c, 'fresh_vs_fixed', 1, count=60, size=size)
        for c in ({'p': 2, 'q': 0, 'r': 1}, {'p': 1, 'q': 1, 'r': 1}, {'p': 3, 'q': 0, 'r': 0}, {'p': 1, 'q': 0, 'r': 2}):
            U += u(dict(c, opts={'graded': True}), 'gradeblocks', 1, count=40, cap=8)
        # two options at once (each changes which code path generates the function)
        for c, o in (({'p': 2, 'q': 0, 'r': 1}, {'graded': True, 'cse': False}), ({'p': 1, 'q': 0, 'r': 2}, {'graded': True, 'cse': False}),
                     ({'p': 2, 'q': 1, 'r': 0}, {'graded': True, 'wrapper': 'identity'}), ({'p': 2, 'q': 0, 'r': 1}, {'cse': False, 'wrapper': 'wraps'}),
                     ({'p': 2, 'q': 0, 'r': 1}, {'graded': True, 'symcls': 'sympy'}), ({'p': 3, 'q': 0, 'r': 0}, {'cse': False, 'symcls': 'sympy'})):
            U += u(dict(c, opts=o), 'gradeblocks', 1, count=30, cap=8)
        for c, w in zip(rng.sample(d2, 3) + rng.sample(d3, 3), ('wraps', 'identity') * 3):
            U += u(dict(c, opts={'wrapper': w}), 'sparse', 1, count=120, cap=4, perm=0.6, min_size=2)
        nshards = 16
    else:
        for c in d1:
            U += u(c, 'exh_ordered')
        for c in d2:
            U += u(c, 'exh_ordered', 4)
        for c in d2[:3]:
            U += u(dict(c, opts={'cse': False}), 'exh_canon', 2)
        full3 = [{'signature': [1, 1, 1]}, {'signature': [0, 1, 1]}, {'signature': [1, -1, 0]}]
        for c in full3:
            U += u(c, 'exh_canon', 32)
        for c in d3:
            if c not in full3:
                U += u(c, 'exh_canon_sample', 4, frac=0.1)
        for c in gen.pqr_all(4, 7):
            d = gen.cfg_dim(c)
            U += u(c, 'sparse', 1, count=110 if d <= 5 else 60, cap=6 if d <= 5 else 5)
            if d <= 5:
                U += u(c, 'gradeblocks', 1, count=30, cap=10)
        for c in rng.sample(d3, 10):
            U += u(dict(c, opts={'cse': False}), 'random', 1, count=100, cap=8)
            U += u(c, 'special', 1, cap=8)
        for _ in range(120):
            U += u(gen.random_custom_cfg(rng, rng.choice((2, 3, 3, 4, 4, 5))), 'random', 1, count=60, cap=6)
        for c in gen.NAMED:
            U += u(c, 'sparse', 2, count=150, cap=6)
        for s in (0, 1, 2):
            U += u({'p': 2, 'q': 1, 'r': 1, 'start_index': s}, 'random', 1, count=100, cap=8)
        for c in gen.pqr_all(2, 4):
            U += u(dict(c, opts={'graded': True}), 'gradeblocks', 1, count=120, cap=11)
        for c in rng.sample(gen.pqr_all(2, 4), 12):
            for o in ({'graded': True, 'cse': False}, {'graded': True, 'wrapper': 'identity'}, {'cse': False, 'wrapper': 'wraps'}, {'graded': True, 'symcls': 'sympy'}):
                U += u(dict(c, opts=o), 'gradeblocks', 1, count=40, cap=8)
        for c, w in zip(rng.sample(d2, 6) + rng.sample(d3, 14), ('wraps', 'identity') * 10):
            U += u(dict(c, opts={'wrapper': w}), 'sparse', 1, count=300, cap=4, perm=0.6, min_size=2)
        # default basis and custom basis of one signature in one process, same key patterns (state shared between Algebra instances)
        pairs = [({'p': 2, 'q': 0, 'r': 1}, {'named': '2DPGA'}), ({'named': '3DPGA'}, {'p': 3, 'q': 0, 'r': 1}), ({'p': 3, 'q': 0, 'r': 1}, {'named': '3DPGA'}),
                 ({'signature': [1, -1]}, {'signature': [1, -1], 'basis': ['e', 'e2', 'e1', 'e21']}),
                 ({'signature': [1, 1, 1], 'basis': ['e', 'e3', 'e1', 'e2', 'e31', 'e12', 'e32', 'e312']}, {'p': 3, 'q': 0, 'r': 0})]
        for _ in range(25):
            cc = gen.random_custom_cfg(rng, rng.choice((2, 3, 3, 4)))
            plain = {'signature': list(cc['signature'])}
            pairs.append((cc, plain) if rng.random() < 0.5 else (plain, cc))
        for a_, b_ in pairs:
            U += [dict(unit_, pair_with=b_, pseed=rng.randrange(10 ** 9)) for unit_ in u(a_, 'sparse', 1, count=100, cap=5, perm=0.2)]
        for c in rng.sample(gen.pqr_all(2, 4), 12):
            for size in (1, 2, 3):
                U += u(c, 'fresh_vs_fixed', 1, count=150, size=size)
        for c in rng.sample(gen.pqr_all(6, 6), 4) + [{'signature': gen.random_sig(rng, 7)} for _ in range(3)]:
            U += u(c, 'highgrade', 1, count=60, cap=4)
        nshards = 64
    rng.shuffle(U)
    return [{'units': part} for part in gen.split(U, nshards)]


def numeric_kinds(rng, keys, kind):
    import numpy as np
    if kind == 'int':
        return {k: rng.randint(-5, 5) for k in keys}
    if kind == 'frac':
        return {k: gen.small_frac(rng) for k in keys}
    if kind == 'float':
        return {k: gen.dyadic(rng) for k in keys}
    if kind == 'array':
        return {k: np.array([gen.dyadic(rng) for _ in range(3)]) for k in keys}
    if kind == 'array2':
        return {k: np.array([[gen.dyadic(rng) for _ in range(3)] for _ in range(2)]) for k in keys}
    raise KeyError(kind)


def run_shard(shard, ctx):
    threaded_rounds(ctx, 12 if ctx.tier == 'quick' else 60)
    algs = {}
    units = []
    for unit in shard['units']:
        units.append(unit)
        if unit.get('pair_with'):
            # the twin configuration (same signature, other basis) follows immediately in the same process, on the same key patterns
            units.append(dict(unit, cfg=unit['pair_with'], pair_with=None))
    for unit in units:
        cfg = unit['cfg']
        name = gen.cfg_str(cfg)
        if name not in algs:
            alg = gen.make_or_skip(ctx, cfg)
            if alg is None:
                continue
            algs[name] = (alg, Iso(alg))
            ctx.count('algebras')
        alg, iso = algs[name]
        prng = random.Random(unit['pseed']) if unit.get('pseed') is not None else ctx.rng
        if unit.get('pseed') is not None:
            ctx.count('paired_configuration_units')
        for kx, ky in workload.iter_patterns(unit, alg, prng):
            if ctx.out_of_time():
                ctx.count('patterns_skipped_out_of_time')
                break
            cid = [name, list(kx), list(ky)]
            if not ctx.want(cid):
                continue
            if unit['fam'] == 'fresh_vs_fixed':
                ctx.count('short_lived_key_tuple_cases')
            cached_before = (kx, ky) in alg.gp
            st, r = ops.check_generic(ctx, alg, iso, cfg, 'gp', (kx, ky), cid, total=True)
            if st in ('timeout', 'raised'):
                continue
            ctx.count('generic_executions')
            if not cached_before:
                ctx.count('distinct_generated_functions')
            ctx.distinct('key_pattern_pairs_executed', (name, kx, ky))
            ctx.distinct('algebra_configurations', name)
            if tuple(sorted(kx)) != tuple(kx) or tuple(sorted(ky)) != tuple(ky):
                ctx.count('permuted_order_cases')
            if not kx or not ky:
                ctx.count('empty_operand_cases')
            if cfg.get('opts', {}).get('cse') is False:
                ctx.count('cse_false_cases')
            if cfg.get('opts', {}).get('wrapper'):
                ctx.count('wrapper_configured_cases')
            if cfg.get('opts', {}).get('graded'):
                ctx.count('graded_mode_cases')
            ctx.case(cid)
            if ctx.evaluations % 400 == 1:
                ctx.sample({'config': name, 'keys_a': list(kx), 'keys_b': list(ky), 'keys_out': list(r.keys())})
            if st == 'ok' and ctx.rng.random() < 0.12:
                ops.check_special_values(ctx, alg, iso, cfg, 'gp', (kx, ky), cid)
            if st == 'ok' and len(kx) * len(ky) <= 16 and ctx.rng.random() < 0.03:
                ops.check_sympy_values(ctx, alg, iso, cfg, 'gp', (kx, ky), cid)
            if st == 'ok' and ctx.rng.random() < 0.12:
                kind = ctx.rng.choice(['int', 'frac', 'float', 'array', 'array2'])
                va, vb = numeric_kinds(ctx.rng, kx, kind), numeric_kinds(ctx.rng, ky, kind)
                x, y = ops.value_mv(alg, kx, va), ops.value_mv(alg, ky, vb)
                st2, r2 = ctx.guarded(20, lambda: x * y)
                if st2 != 'ok':
                    if st2 == 'exc':
                        ctx.note_raised(r2, 'gp-numeric-' + kind)
                    continue
                exp = iso.ref.gp(iso.mv_to_ref(x), iso.mv_to_ref(y))
                got = iso.to_ref(zip(r2.keys(), r2.values()))
                ctx.count('numeric_reexecutions')
                bad = elem_diff(got, exp)
                if bad or tuple(r2.keys()) != tuple(r.keys()):
                    ctx.violation('numeric-reexecution-differs', cid + [kind], config=cfg, op='gp', kind=kind,
                                  keys_in=[list(kx), list(ky)], keys_out=list(r2.keys()),
                                  got=show_elem({k: got.get(k) for k in bad[:4]}),
                                  expected=show_elem({k: exp.get(k, 0) for k in bad[:4]}))


def threaded_rounds(ctx, nrounds):
    """The products of C02 taken by several threads at once on a fresh algebra: one key pair P already used, a new pair Q requested by
    all threads at the same moment (and P again by some).  Every thread's result must be the bilinear extension for ITS operands."""
    import sys
    import threading
    from kvm.iso import Iso
    rng = ctx.rng
    old = sys.getswitchinterval()
    sys.setswitchinterval(1e-6)
    try:
        for rnd in range(nrounds):
            if ctx.out_of_time():
                return
            cfg = rng.choice([{'p': 2, 'q': 0, 'r': 0}, {'p': 3, 'q': 0, 'r': 0}, {'p': 2, 'q': 0, 'r': 1}, {'p': 1, 'q': 1, 'r': 1}, {'p': 2, 'q': 2, 'r': 0}])
            alg = gen.make_or_skip(ctx, cfg)
            if alg is None:
                continue
            iso = Iso(alg)
            canon = tuple(alg.canon2bin.values())
            size = rng.randint(1, 3)
            pats = {}
            for nm in 'PQ':
                pats[nm] = (tuple(rng.sample(canon, min(len(canon), size))), tuple(rng.sample(canon, min(len(canon), size))))
            if pats['P'] == pats['Q']:
                continue
            cid = [gen.cfg_str(cfg), 'threaded', [list(k) for k in pats['P']], [list(k) for k in pats['Q']], rnd]
            if not ctx.want(cid):
                continue

            def operands(which):
                kx, ky = pats[which]
                x = ops.value_mv(alg, kx, {k: Fr(rng.randint(1, 9)) for k in kx})
                y = ops.value_mv(alg, ky, {k: Fr(rng.randint(1, 9)) for k in ky})
                return x, y
            xp, yp = operands('P')
            _ = xp * yp                                    # P is in the cache and was the last entry used
            T = 4
            jobs = [('Q',) + operands('Q') for _ in range(T - 1)] + [('P',) + operands('P')]
            rng.shuffle(jobs)
            barrier = threading.Barrier(T)
            results = [None] * T

            def work(i):
                which, x, y = jobs[i]
                try:
                    barrier.wait(timeout=30)
                    r = x * y
                    results[i] = ('ok', r)
                except Exception as e:        # noqa
                    results[i] = ('exc', e)
            threads = [threading.Thread(target=work, args=(i,)) for i in range(T)]
            for t in threads:
                t.start()
            for t in threads:
                t.join(120)
            if any(t.is_alive() for t in threads):
                ctx.count('threaded_rounds_inconclusive')
                continue
            ctx.count('threaded_cold_start_rounds')
            ctx.case(cid)
            for i, (which, x, y) in enumerate(jobs):
                st, r = results[i]
                exp = iso.ref.gp(iso.mv_to_ref(x), iso.mv_to_ref(y))
                if st == 'exc':
                    ctx.violation('a product raised in a thread although the same product is defined', cid + [i], config=cfg, pattern=which,
                                  keys=[list(k) for k in pats[which]], error=f'{type(r).__name__}: {str(r)[:160]}')
                    continue
                got = iso.to_ref(zip(r.keys(), r.values()))
                bad = elem_diff(got, exp)
                if bad or len(r.keys()) != len(r.values()):
                    ctx.violation('product taken in a thread is not the bilinear extension for its operands', cid + [i], config=cfg, pattern=which,
                                  keys=[list(k) for k in pats[which]], other_pattern=[list(k) for k in pats['P' if which == 'Q' else 'Q']],
                                  got=show_elem({k: got.get(k) for k in bad[:4]}), expected=show_elem({k: exp.get(k, 0) for k in bad[:4]}))
    finally:
        sys.setswitchinterval(old)

"""C14 - custom bases and start indices are a pure relabelling; mixed-algebra operands are rejected."""
import itertools
import random
from fractions import Fraction as Fr

from kvm import gen, ops
from kvm.iso import Iso
from kvm.ring import FreePoly
from kvm.compare import elem_diff, show_elem, mv_dict, coef_equal

META = {
    'level': 'exploration',
    'rule': ('relabelling cases = (custom-basis / start-index / named algebra A, operator, key patterns): the operator is executed in A and in the '
             'default-basis algebra D of the same signature and start index on operands related by the map "named blade -> ordered product of '
             'its generators"; the results must be related by the same map (compared in reference coordinates); coefficient accessors with '
             'arbitrary spellings must agree between A and D; asmatrix of A must be multiplicative on basis-blade pairs with the coefficients in '
             'its first column. Rejection cases = (ordered pair of algebras differing in the metric of some generator, in dimension or in basis; '
             'binary operator or registered function): returning any value is a violation, any exception satisfies the clause. '
             'Distinct = distinct (A, op, keys) resp. (A, B, op).'),
    'assumptions': ['kvm/iso.py is the map of the statement', 'algebras differing only in start_index or options are outside the rejection clause (the repository tests rely on start-index twins comparing equal)'],
}
SHARD_DEADLINE = {'quick': 400, 'thorough': 3400}
CASE_TIMEOUT = {'quick': 25, 'thorough': 90}
ALLOPS = ops.BINARY + [o for o in ops.UNARY if o != 'sqrt']
PSS_DEPENDENT = ('hodge', 'unhodge', 'polarity', 'unpolarity', 'rp')


def floors(tier):
    f = {'distinct_nontrivial': 3000 if tier == 'quick' else 40000, 'relabel_cases': 1500, 'accessor_reads': 1500,
         'matrix_blade_pairs': 1500, 'rejection_pairs_metric_differs': 300, 'rejection_same_pqr_different_order': 60,
         'rejection_basis_differs': 30, 'rejection_with_warm_cache': 300, 'rejection_registered_function': 100, 'custom_basis_algebras': 40, 'named_algebras': 3,
         'respelled_blades_in_bases': 40}
    for o in ALLOPS:
        f['op_' + o] = 25 if tier == 'quick' else 300
    return f


def plan(tier, seed):
    rng = random.Random(f'C14-plan-{seed}')
    A = []
    sigs2 = [[1, 1], [1, -1], [-1, 1], [0, 1], [1, 0], [0, -1]]
    for sig in sigs2:
        for start in (0, 1):
            for b in gen.all_custom_bases(2, start):
                A.append({'signature': sig, 'basis': b})
    nq = (60, 100, 5000)[0 if tier == 'quick' else 2]
    for i in range(nq):
        d = (3, 3, 4)[i % 3]
        A.append(gen.random_custom_cfg(rng, d))
    for i in range(6 if tier == 'quick' else 300):
        A.append(gen.random_custom_cfg(rng, 5))
    A += gen.NAMED * (2 if tier == 'quick' else 6)
    for s in (0, 1, 2):
        for base in ({'p': 2, 'q': 1, 'r': 0}, {'p': 2, 'q': 0, 'r': 1}, {'signature': [-1, 0, 1]}, {'signature': [1, -1]}):
            A.append(dict(base, start_index=s))
    # custom bases whose generator labels are hexadecimal letters (what Algebra(d, start_index=10) itself reports as its basis)
    A.append({'signature': [1, -1], 'basis': ['e', 'eb', 'ea', 'eab']})
    A.append({'signature': [1, 1, 0], 'basis': ['e', 'ea', 'eb', 'ec', 'eab', 'eca', 'ebc', 'eabc']})
    # start indices (and bases) that make the hexadecimal digit 'e' itself a generator label: 'eec' is then a spelling of 'ece'
    A.append({'p': 2, 'q': 1, 'r': 0, 'start_index': 12})
    A.append({'signature': [1, -1, 0], 'start_index': 13})
    A.append({'signature': [-1, 1], 'start_index': 14})
    A.append({'signature': [1, 1, -1], 'basis': ['e', 'ee', 'ed', 'ec', 'eed', 'ece', 'edc', 'eced']})
    if tier != 'quick':
        for s in (10, 11, 12, 13, 14):
            for _ in range(4):
                A.append({'signature': gen.random_sig(rng, rng.choice((2, 3))), 'start_index': s})
    U = [{'kind': 'relabel', 'cfg': c, 'per_op': 3 if tier == 'quick' else 3} for c in A]
    # custom bases above six dimensions (lazily filled sign table): elementary operators only, few blades
    cheap = ops.ELEMENTARY_BIN + ops.ELEMENTARY_UN + ['sw', 'normsq']
    big = [{'signature': [1] * 7}, {'signature': [0, 1, 1, 1, 1, -1, -1]}, {'signature': gen.random_sig(rng, 7)}]
    if tier != 'quick':
        big += [{'signature': gen.random_sig(rng, 7)} for _ in range(12)] + [{'signature': [0] + [1] * 6 + [-1]}]
    for c in big:
        U.append({'kind': 'relabel', 'cfg': dict(c, basis=gen.random_basis(rng, len(c['signature']), rng.choice((0, 1)))), 'per_op': 2, 'ops': cheap})
    # rejection: ordered pairs among ~30 algebras d <= 3
    R = [{'p': 2, 'q': 0, 'r': 0}, {'p': 1, 'q': 1, 'r': 0}, {'signature': [-1, 1]}, {'signature': [1, -1]}, {'p': 0, 'q': 2, 'r': 0},
         {'p': 1, 'q': 0, 'r': 1}, {'signature': [1, 0]}, {'signature': [0, 1]}, {'p': 3, 'q': 0, 'r': 0}, {'p': 2, 'q': 1, 'r': 0},
         {'signature': [1, -1, 1]}, {'signature': [-1, 1, 1]}, {'p': 2, 'q': 0, 'r': 1}, {'signature': [1, 1, 0]}, {'signature': [1, 0, 1]},
         {'named': '2DPGA'}, {'p': 1, 'q': 2, 'r': 0}, {'signature': [-1, -1, 1]}, {'p': 1, 'q': 0, 'r': 0}, {'p': 0, 'q': 1, 'r': 0},
         {'p': 0, 'q': 0, 'r': 1}, {'signature': [1, 1], 'basis': ['e', 'e2', 'e1', 'e21']}, {'signature': [1, 1], 'basis': ['e', 'e1', 'e2', 'e21']},
         {'signature': [1, 1, 1], 'basis': ['e', 'e1', 'e2', 'e3', 'e12', 'e31', 'e23', 'e123']},
         {'signature': [1, 1, 1], 'basis': ['e', 'e3', 'e2', 'e1', 'e12', 'e13', 'e23', 'e321']},
         {'p': 1, 'q': 1, 'r': 1}, {'signature': [0, -1, 1]}, {'signature': [1, 0, -1]}, {'p': 0, 'q': 0, 'r': 2}, {'p': 4, 'q': 0, 'r': 0},
         # the same signatures under another start index (same metric, other generator names)
         {'p': 2, 'q': 0, 'r': 0, 'start_index': 0}, {'p': 2, 'q': 0, 'r': 1, 'start_index': 1}, {'p': 3, 'q': 0, 'r': 0, 'start_index': 2},
         {'p': 1, 'q': 1, 'r': 0, 'start_index': 0}]
    pairs = [(i, j) for i in range(len(R)) for j in range(len(R)) if i != j]
    rng.shuffle(pairs)
    if tier == 'quick':
        pairs = pairs[:700]
    for part in gen.split(pairs, 16 if tier == 'quick' else 48):
        U.append({'kind': 'reject', 'algs': R, 'pairs': part})
    rng.shuffle(U)
    return [{'units': part} for part in gen.split(U, 16 if tier == 'quick' else 64)]


def default_twin(cfg, alg):
    sig = [int(s) for s in alg.signature]
    return {'signature': sig, 'start_index': alg.start_index}


def run_shard(shard, ctx):
    for unit in shard['units']:
        if ctx.out_of_time():
            ctx.count('units_skipped_out_of_time')
            continue
        if unit['kind'] == 'relabel':
            relabel_unit(ctx, unit)
        else:
            reject_unit(ctx, unit)


def relabel_unit(ctx, unit):
    cfg = unit['cfg']
    name = gen.cfg_str(cfg)
    A = gen.make_or_skip(ctx, cfg)
    if A is None:
        return
    D = gen.make_or_skip(ctx, default_twin(cfg, A))
    if D is None:
        return
    isoA, isoD = Iso(A), Iso(D)
    if cfg.get('basis'):
        ctx.count('custom_basis_algebras')
        ctx.count('respelled_blades_in_bases', sum(1 for k, (m, o) in isoA.key2ref.items() if o < 0))
    if cfg.get('named'):
        ctx.count('named_algebras')
        ctx.count('respelled_blades_in_bases', sum(1 for k, (m, o) in isoA.key2ref.items() if o < 0))
    rng = ctx.rng
    to = CASE_TIMEOUT[ctx.tier]
    canonA = tuple(A.canon2bin.values())
    d = A.d
    if d >= 7:
        ctx.count('custom_basis_algebras_d_ge_7')
    for op in unit.get('ops', ALLOPS):
        for _ in range(unit['per_op']):
            if ctx.out_of_time():
                return
            composite = op in ops.COMPOSITE_BIN or op in ops.COMPOSITE_UN
            arity = 2 if op in ops.BINARY else 1
            cap = (4 if d <= 3 else 3) if composite else 6
            keysA = []
            for _a in range(arity):
                ks = gen.random_subset(rng, canonA, cap, 1)
                if rng.random() < 0.3:
                    ks = gen.permuted(rng, ks)
                keysA.append(ks)
            cid = [name, op, [list(k) for k in keysA]]
            if not ctx.want(cid):
                continue
            generic = op in ops.POLYNOMIAL
            valsA = []
            for ks, p in zip(keysA, 'ab'):
                if generic:
                    valsA.append([FreePoly.var(f'{p}{isoA.keymask(k)}') for k in ks])
                else:
                    valsA.append([gen.small_frac(rng, nonzero=True) for _ in ks])
            xsA = [gen.mv_from(A, ks, vs) for ks, vs in zip(keysA, valsA)]
            # the related operands in D: same reference element
            xsD = []
            for x in xsA:
                dct = isoD.from_ref(isoA.mv_to_ref(x))
                kd = tuple(dct)
                xsD.append(gen.mv_from(D, kd, [dct[k] for k in kd]))
            stA, rA = ctx.guarded(to, ops.call_op, A, op, *xsA)
            stD, rD = ctx.guarded(to, ops.call_op, D, op, *xsD)
            if 'timeout' in (stA, stD):
                ctx.count('case_timeouts')
                continue
            wit = dict(config=cfg, op=op, keys_custom=[list(k) for k in keysA], blades_custom=[[A.bin2canon[k] for k in ks] for ks in keysA],
                       values=[[str(v) for v in vs] for vs in valsA])
            if stA == 'exc' or stD == 'exc':
                ctx.note_raised(rA if stA == 'exc' else rD, op)
                if (stA == 'exc') != (stD == 'exc'):
                    ctx.violation('operator raises in one of the two isomorphic algebras only', cid,
                                  custom=repr(rA)[:160] if stA == 'exc' else 'value', default=repr(rD)[:160] if stD == 'exc' else 'value', **wit)
                continue
            ctx.count('relabel_cases')
            ctx.count('op_' + op)
            ctx.case(cid)
            if ctx.evaluations % 250 == 1:
                ctx.sample({'A': name, 'op': op, 'blades_custom': wit['blades_custom']})
            gA, gD = isoA.mv_to_ref(rA), isoD.mv_to_ref(rD)
            if op in PSS_DEPENDENT and isoA.pss_sign != isoD.pss_sign:
                # duals and the regressive product are defined relative to the algebra's own pseudoscalar (C05); the map sends
                # pss_A to -pss_D here, so the images differ by exactly that sign.
                gD = {k: -v for k, v in gD.items()}
                ctx.count('pss_orientation_flipped_cases')
            # outertan is outersin * inverse(outercos) evaluated in floats (1/k! constants); for d >= 4 the closed-form inverse loses
            # several digits on ordinary operands and the two bases evaluate differently ordered polynomials (see 8.2, C19)
            if op == 'outertan' and d >= 4:
                # (the residue on a blade whose exact coefficient is 0 is relative to the size of the whole result)
                try:
                    scale_ = max([1.0] + [abs(complex(v)) for v in list(gA.values()) + list(gD.values())])
                    bad = sorted(k for k in set(gA) | set(gD) if abs(complex(gA.get(k, 0)) - complex(gD.get(k, 0))) > 1e-6 * scale_)
                except Exception:
                    bad = elem_diff(gA, gD, tol=1e-6)
            else:
                bad = elem_diff(gA, gD)
            if bad:
                ctx.violation('operator does not commute with the relabelling map', cid, reference_blades=bad[:6],
                              custom_result=show_elem({k: gA.get(k, 0) for k in bad[:4]}),
                              default_result=show_elem({k: gD.get(k, 0) for k in bad[:4]}), **wit)
    # coefficient accessors with arbitrary spellings
    names = gen.default_names(d, A.start_index)
    for _ in range(12 if ctx.tier == 'quick' else 40):
        ks = gen.random_subset(rng, canonA, 6, 1)
        vals = [gen.small_frac(rng, nonzero=True) for _ in ks]
        xA = gen.mv_from(A, ks, vals)
        dct = isoD.from_ref(isoA.mv_to_ref(xA))
        xD = gen.mv_from(D, tuple(dct), list(dct.values()))
        cid = [name, 'accessor', list(ks)]
        if not ctx.want(cid):
            continue
        bad = []
        for _s in range(6):
            g = rng.randint(0, d)
            sp = 'e' + ''.join(rng.sample(names, g))
            try:
                a, b = getattr(xA, sp), getattr(xD, sp)
            except Exception as e:
                ctx.note_raised(e, 'accessor')
                continue
            ctx.count('accessor_reads')
            m, par = isoA.name_to_ref(sp)
            want = par * isoA.mv_to_ref(xA).get(m, 0)
            if not (coef_equal(a, b) and coef_equal(a, want)):
                bad.append([sp, str(a), str(b), str(want)])
            if rng.random() < 0.3:
                # the same read written inside a registered (compiled) function, in both algebras
                def through_register(alg_, x_):
                    ns = {}
                    exec(f'def read_{sp}(x):\n    return x.{sp}\n', ns)
                    out = alg_.register(ns[f'read_{sp}'])(x_)
                    return mv_dict(out).get(0, 0) if hasattr(out, 'keys') else out
                stA, ra = ctx.guarded(20, through_register, A, xA)
                stD, rd = ctx.guarded(20, through_register, D, xD)
                if stA == 'ok' and stD == 'ok':
                    ctx.count('accessor_reads_inside_registered_functions')
                    if not (coef_equal(ra, rd) and coef_equal(ra, want)):
                        bad.append([sp + ' (inside alg.register)', str(ra), str(rd), str(want)])
                else:
                    for st_, r_ in ((stA, ra), (stD, rd)):
                        if st_ == 'exc':
                            ctx.note_raised(r_, 'registered-accessor')
        ctx.case(cid)
        if bad:
            ctx.violation('coefficient accessor does not commute with the relabelling', cid, config=cfg,
                          detail='[spelling, custom-basis read, default-basis read, first-principles value]', mismatches=bad[:6],
                          blades=[A.bin2canon[k] for k in ks], values=[str(v) for v in vals])
    # positional (value-list) constructors: values are taken in the order the basis lists the blades of that grade
    for g in range(d + 1):
        cid = [name, 'positional-constructor', g]
        if not ctx.want(cid):
            continue
        order = [A.canon2bin[nm] for nm in A.canon2bin if len(nm) - 1 == g]
        vals = [Fr(3 + 2 * i) for i in range(len(order))]
        st, mv = ctx.guarded(20, lambda: A.purevector(list(vals), grade=g))
        if st != 'ok':
            if st == 'exc':
                ctx.note_raised(mv, 'purevector')
            continue
        ctx.count('positional_constructor_reads')
        ctx.case(cid)
        got = mv_dict(mv)
        want = dict(zip(order, vals))
        if elem_diff(got, want):
            ctx.violation('value list is not assigned in the order of the basis', cid, config=cfg, grade=g,
                          got={A.bin2canon[k]: str(v) for k, v in got.items()}, expected={A.bin2canon[k]: str(v) for k, v in want.items()})
    # matrix representation of A is multiplicative on basis blades
    if d <= 4:
        import numpy as np
        cid = [name, 'asmatrix']
        if ctx.want(cid):
            blades = [A.blades[nm] for nm in A.canon2bin]
            pairs = list(itertools.product(range(len(blades)), repeat=2))
            if len(pairs) > 64 and ctx.tier == 'quick':
                pairs = rng.sample(pairs, 64)
            bad = []
            n = 0
            try:
                mats = [np.array(b.asmatrix(), dtype=float) for b in blades]
                for i, j in pairs:
                    prod = blades[i] * blades[j]
                    M = prod.asmatrix() if len(prod) else 0 * mats[0]
                    n += 1
                    if not np.allclose(np.array(M, dtype=float), mats[i] @ mats[j]):
                        bad.append([list(A.canon2bin)[i], list(A.canon2bin)[j]])
                for i, m in enumerate(mats):
                    col = m[:, 0]
                    e = np.zeros(len(blades))
                    e[i] = 1
                    if not np.allclose(col, e):
                        bad.append(['first-column', list(A.canon2bin)[i]])
            except Exception as e:
                ctx.note_raised(e, 'asmatrix')
            ctx.count('matrix_blade_pairs', n)
            if n:
                ctx.case(cid)
            if bad:
                ctx.violation('asmatrix is not a homomorphism in this basis', cid, config=cfg, n_mismatch=len(bad), of=n,
                              blade_pairs=bad[:8], mechanism_hint='custom-basis' if (cfg.get('basis') or cfg.get('named')) else 'default-basis')


def metric_by_name(alg):
    return {nm[1:]: int(alg.signature[int(nm[1:], 16) - alg.start_index]) for nm in alg.canon2bin if len(nm) == 2}


def must_reject(A, B):
    """True when the statement's rejection clause applies: metric or basis differ."""
    if A.d != B.d:
        return 'dimension'
    ma, mb = metric_by_name(A), metric_by_name(B)
    if set(ma) != set(mb):
        # only the naming (start index) differs.  Not judged: the repository's own test suite (tests/test_kingdon.py, the 2DPGA
        # comparison with Algebra(signature=[0, 1, 1], start_index=1)) relies on such algebras comparing equal, so rejecting them
        # cannot be what the statement's "metric or basis differ" means for this code base.  Counted, see DESIGN 8.6.
        return None
    if ma != mb:
        return 'metric'
    if list(A.canon2bin) != list(B.canon2bin):
        return 'basis'
    return None


def reject_unit(ctx, unit):
    algs = [gen.make_or_skip(ctx, c) for c in unit['algs']]
    rng = ctx.rng
    for i, j in unit['pairs']:
        if ctx.out_of_time():
            return
        A, B = algs[i], algs[j]
        if A is None or B is None:
            continue
        why = must_reject(A, B)
        if not why:
            ctx.count('pairs_outside_rejection_clause')
            continue
        na, nb = gen.cfg_str(unit['algs'][i]), gen.cfg_str(unit['algs'][j])
        x = gen.mv_from(A, (1, 0), [Fr(2), Fr(3)])
        y = gen.mv_from(B, (1,), [Fr(5)])
        opsel = rng.sample(ops.BINARY, 4) + ['gp', 'registered']
        for op in opsel:
            cid = ['reject', na, nb, op]
            if not ctx.want(cid):
                continue
            warm = rng.random() < 0.6
            y_own = gen.mv_from(A, tuple(y.keys()), [Fr(7)])      # same key pattern as the foreign operand, but of A itself
            if op == 'registered':
                def mixprod(a, b):
                    return a * b + a
                f = A.register(mixprod)
                if warm:
                    ctx.guarded(20, f, x, y_own)
                st, r = ctx.guarded(20, f, x, y)
                ctx.count('rejection_registered_function')
            else:
                if warm:
                    # the operator has already been used (and cached) for exactly this key pattern inside A
                    ctx.guarded(20, lambda: getattr(A, op)(x, y_own))
                st, r = ctx.guarded(20, lambda: getattr(A, op)(x, y))
            if warm:
                ctx.count('rejection_with_warm_cache')
            if st == 'timeout':
                continue
            ctx.count({'metric': 'rejection_pairs_metric_differs', 'dimension': 'rejection_pairs_dimension_differs',
                       'basis': 'rejection_basis_differs', 'start_index': 'rejection_start_index_differs'}[why])
            if why == 'metric' and (A.p, A.q, A.r) == (B.p, B.q, B.r):
                ctx.count('rejection_same_pqr_different_order')
            ctx.case(cid)
            if st == 'ok':
                ctx.violation('operands of different algebras were silently combined', cid, left_algebra=unit['algs'][i],
                              right_algebra=unit['algs'][j], differ_in=why, op=op, same_pqr=(A.p, A.q, A.r) == (B.p, B.q, B.r),
                              result=show_elem(mv_dict(r)) if hasattr(r, 'keys') else repr(r)[:100])
            else:
                ctx.note_raised(r, 'rejected')

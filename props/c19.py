"""C19 - exp, outer exponentials, sqrt, powers and norms obey their identities."""
import math
import random
from fractions import Fraction as Fr

from kvm import gen, ops
from kvm.iso import Iso
from kvm.compare import elem_diff, show_elem, mv_dict

META = {
    'level': 'exploration',
    'rule': ('one case = (configuration, identity, operand generated inside the stated domain, coefficient kind). outerexp/outersin/outercos are '
             'executed on polynomial indeterminates and compared with the finite wedge series of the reference model; outertan with '
             'outersin * inverse(outercos) at rational points; exp(x) of simple elements (scaled basis blades and rotated versions R x R^-1 with '
             'known square; positive, zero and negative squares; float, int, complex, 0-d array, sympy symbol) with the power series summed in '
             'the reference model; sqrt(x)*sqrt(x) == x and x**0.5 == sqrt(x) for Study numbers a + b B (B a blade or rotated blade, a >= |b| + 1); '
             'x**n with repeated products, x**-n with powers of the inverse, x**0 == 1; norm()*norm() == normsq(); normalized().normsq() == 1. '
             'Tolerance 1e-9 relative. Distinct = distinct (config, identity, operand, kind).'),
    'assumptions': ['kvm/refmodel.py (wedge series, power series, exact inverse)', 'double precision tolerance 1e-9'],
}
SHARD_DEADLINE = {'quick': 300, 'thorough': 3300}
TO = 30


def floors(tier):
    return {'distinct_nontrivial': 1200 if tier == 'quick' else 250000, 'outer_generic_cases': 250, 'outertan_points': 60,
            'exp_positive_square': 60, 'exp_zero_square': 40, 'exp_negative_square': 60, 'exp_rotated_operands': 60,
            'exp_kind_float': 60, 'exp_kind_int': 30, 'exp_kind_complex': 20, 'exp_kind_sympy': 20, 'exp_kind_array0d': 10,
            'sqrt_squares_back': 200, 'sqrt_B2_negative': 40, 'sqrt_B2_positive': 40, 'sqrt_B2_zero': 30, 'pow_half_is_sqrt': 150,
            'integer_powers': 300, 'negative_powers': 100, 'norm_identities': 200, 'integer_powers_in_registered_function': 100}


def plan(tier, seed):
    rng = random.Random(f'C19-plan-{seed}')
    if tier == 'quick':
        cfgs = gen.pqr_all(1, 4) + rng.sample(gen.sig_orderings(3, 3), 5) + rng.sample(gen.pqr_all(5, 5), 3) + rng.sample(gen.pqr_all(6, 6), 2)
        cfgs += [gen.random_custom_cfg(rng, 3) for _ in range(3)] + gen.NAMED[:2] + [{'p': 2, 'q': 0, 'r': 0, 'opts': {'symcls': 'sympy'}}]
        per = 16
    else:
        cfgs = gen.sig_orderings(1, 4) + gen.pqr_all(5, 5) + rng.sample(gen.pqr_all(6, 6), 8)
        cfgs += [gen.random_custom_cfg(rng, rng.choice((2, 3, 4))) for _ in range(30)] + gen.NAMED
        cfgs += [{'p': 2, 'q': 0, 'r': 0, 'opts': {'symcls': 'sympy'}}, {'p': 1, 'q': 1, 'r': 0, 'opts': {'symcls': 'sympy'}},
                 {'p': 3, 'q': 0, 'r': 0, 'opts': {'cse': False}}]
        per = 360
    U = [{'cfg': c, 'per': per} for c in cfgs]
    rng.shuffle(U)
    return [{'units': part} for part in gen.split(U, 16 if tier == 'quick' else 64)]


def run_shard(shard, ctx):
    for unit in shard['units']:
        cfg = unit['cfg']
        name = gen.cfg_str(cfg)
        alg = gen.make_or_skip(ctx, cfg)
        if alg is None:
            continue
        iso = Iso(alg)
        ctx.count('algebras')
        for _ in range(unit['per']):
            if ctx.out_of_time():
                ctx.count('cases_skipped_out_of_time')
                return
            outer_case(ctx, alg, iso, cfg, name)
            exp_case(ctx, alg, iso, cfg, name)
            sqrt_case(ctx, alg, iso, cfg, name)
            pow_case(ctx, alg, iso, cfg, name)
            norm_case(ctx, alg, iso, cfg, name)


def outer_case(ctx, alg, iso, cfg, name):
    rng = ctx.rng
    canon = tuple(alg.canon2bin.values())
    d = alg.d
    cap = 5 if d <= 4 else 3
    if rng.random() < 0.6:
        g = rng.choice([g for g in range(d + 1)])
        ks = gen.grade_block(canon, (g,))
        if len(ks) > cap:
            ks = tuple(rng.sample(ks, cap))
    else:
        ks = gen.random_subset(rng, canon, cap, 1)
    for op in ('outerexp', 'outersin', 'outercos'):
        cid = [name, op, list(ks)]
        if not ctx.want(cid):
            continue
        st, r = ops.check_generic(ctx, alg, iso, cfg, op, (ks,), cid, timeout=TO)
        if st in ('ok', 'violation'):
            ctx.count('outer_generic_cases')
            ctx.case(cid)
    cid = [name, 'outertan', list(ks)]
    if ctx.want(cid):
        # outertan = outersin * inverse(outercos): compared at rational points with kingdon's own sin/cos/inv and with the reference
        vals = {k: gen.small_frac(rng, nonzero=True) for k in ks}
        x = ops.value_mv(alg, ks, vals)
        # exact reference first: at (or numerically next to) a pole of outertan nothing is compared
        try:
            ref = ops.ref_apply(iso, 'outertan', iso.mv_to_ref(x))
        except ops.NoReference:
            ctx.count('outertan_poles_skipped')
            return
        scale = max([1.0] + [abs(float(v)) for v in ref.values()])
        if scale > 1e6:
            ctx.count('outertan_near_poles_skipped')
            return
        st, out = ctx.guarded(TO, lambda: (x.outertan(), x.outersin() * x.outercos().inv()))
        if st == 'ok':
            ctx.count('outertan_points')
            ctx.case(cid + [[str(v) for v in vals.values()]])
            t, own = iso.mv_to_ref(out[0]), iso.mv_to_ref(out[1])
            # the inverse of outercos is the closed form of C07 evaluated in floats (1/k! constants make the operand a float even for
            # Fraction inputs); for d >= 4 its expanded degree-4 / degree-8 polynomials lose several digits on ordinary operands
            tol = (1e-8 if alg.d <= 3 else 1e-6) * scale

            def differs(a_, b_):
                return [k for k in set(a_) | set(b_) if abs(complex(a_.get(k, 0)) - complex(b_.get(k, 0))) > tol]
            bad_ref, bad = differs(t, ref), differs(own, ref)
            if bad or bad_ref:
                ctx.violation('outertan != outersin * inverse(outercos)', cid, config=cfg, keys=list(ks), values=[str(v) for v in vals.values()],
                              outertan=show_elem(t), composed=show_elem(own), reference=show_elem({k: float(v) for k, v in ref.items()}))
        elif st == 'exc':
            ctx.note_raised(out, 'outertan')


def simple_element(ctx, alg, iso, want_rotated):
    """A simple element with known scalar square, as reference dict with float coefficients: (ref dict, square, rotated?)."""
    rng = ctx.rng
    R = iso.ref
    n = R.n
    if n < 2:
        return None
    m = rng.randrange(1, n)
    sq = R.bsign(m, m)
    E = {m: Fr(1)}
    rotated = False
    if want_rotated and R.d >= 2:
        # rotate by an invertible versor u*v built from two vectors with non-zero squares
        vecs = [1 << i for i in range(R.d)]
        for _ in range(6):
            u = {rng.choice(vecs): Fr(1), rng.choice(vecs): Fr(rng.choice((1, 2, -1)))}
            v = {rng.choice(vecs): Fr(1), rng.choice(vecs): Fr(rng.choice((1, -2, 3)))}
            V = R.gp(u, v)
            Vi = R.inverse(V)
            if Vi is None:
                continue
            E2 = {k: c for k, c in R.gp(R.gp(V, E), Vi).items() if c != 0}
            if len(E2) > 1 and len(E2) <= 6:
                E, rotated = E2, True
                break
    return E, sq, rotated


def exp_case(ctx, alg, iso, cfg, name):
    import numpy as np
    import sympy
    rng = ctx.rng
    R = iso.ref
    out = simple_element(ctx, alg, iso, rng.random() < 0.4)
    if out is None:
        return
    E, sq, rotated = out
    kind = rng.choice(['float', 'float', 'int', 'complex', 'sympy', 'array0d', 'ndarray', 'npfloat32', 'npint64', 'npfloat64'])
    scale = rng.choice((0.5, -1.25, 2.0, 0.75, 1.0))
    if kind in ('int', 'npint64'):
        scale = rng.choice((1, 2, -1))
        if any(c.denominator != 1 for c in E.values()):
            kind = 'float' if kind == 'int' else 'npfloat64'
            scale = float(scale)
    if kind == 'complex':
        scale = complex(rng.choice((0.5, 1.0)), rng.choice((0.25, -0.5)))
    # kingdon operand
    kd = iso.from_ref(E)
    keys = tuple(kd)
    s = sympy.Symbol('s')
    if kind == 'float':
        vals = [float(kd[k]) * scale for k in keys]
    elif kind == 'int':
        vals = [int(kd[k]) * scale for k in keys]
    elif kind == 'complex':
        vals = [complex(float(kd[k])) * scale for k in keys]
    elif kind == 'sympy':
        vals = [sympy.Rational(kd[k].numerator, kd[k].denominator) * s for k in keys]
    elif kind == 'array0d':
        vals = [np.array(float(kd[k]) * scale) for k in keys]
    elif kind in ('npfloat32', 'npint64', 'npfloat64'):
        # numpy scalar types: what indexing an array-valued multivector of that dtype leaves as coefficients
        ty = {'npfloat32': np.float32, 'npint64': np.int64, 'npfloat64': np.float64}[kind]
        vals = [ty(float(kd[k]) * scale) if kind != 'npint64' else ty(int(kd[k]) * scale) for k in keys]
    else:
        vals = [np.array([float(kd[k]) * scale, float(kd[k]) * 0.5]) for k in keys]
    x = gen.mv_from(alg, keys, vals)
    cid = [name, 'exp', {str(k): str(v) for k, v in E.items()}, kind, str(scale)]
    if not ctx.want(cid):
        return
    st, r = ctx.guarded(TO, lambda: x.exp())
    if st != 'ok':
        if st == 'exc':
            ctx.note_raised(r, 'exp-' + kind)
        return
    try:
        if kind == 'sympy':
            sval = 0.7
            got = {k: complex(sympy.N(sympy.sympify(v).subs(s, sval))) for k, v in mv_dict(r).items()}
            X = {m: float(c) * sval for m, c in E.items()}
        elif kind == 'ndarray':
            return
        else:
            got = {k: complex(np.asarray(v).item()) if hasattr(v, 'shape') else complex(v) for k, v in mv_dict(r).items()}
            X = {m: (complex(float(c)) * scale) for m, c in E.items()}
    except Exception as e:
        ctx.note_raised(e, 'exp-oracle')
        return
    want = R.exp_series(X)
    got_ref = iso.to_ref(got.items())
    ctx.count('exp_positive_square' if sq > 0 else ('exp_negative_square' if sq < 0 else 'exp_zero_square'))
    ctx.count('exp_kind_' + kind)
    if rotated:
        ctx.count('exp_rotated_operands')
    ctx.case(cid)
    if ctx.evaluations % 150 < 3:
        ctx.sample({'config': name, 'identity': 'exp == power series', 'operand': {alg.bin2canon[k]: str(v) for k, v in zip(keys, vals)}, 'square_sign': sq})
    bad = elem_diff(got_ref, want, tol=1e-8 if kind != 'npfloat32' else 1e-5)
    if not bad and any(v != v for v in got_ref.values()):
        bad = sorted(k for k, v in got_ref.items() if v != v)        # nan
    if bad:
        ctx.violation('exp(x) differs from the power series', cid, config=cfg, coefficient_kind=kind, square_sign=sq, rotated=rotated,
                      operand={alg.bin2canon[k]: str(v) for k, v in zip(keys, vals)},
                      got=show_elem({k: got_ref.get(k, 0) for k in bad[:4]}), series=show_elem({k: want.get(k, 0) for k in bad[:4]}))


def sqrt_case(ctx, alg, iso, cfg, name):
    rng = ctx.rng
    R = iso.ref
    out = simple_element(ctx, alg, iso, rng.random() < 0.3)
    if out is None:
        return
    E, sq, rotated = out
    a = float(rng.choice((3, 4, 5, 7)))
    b = rng.choice((0.5, -1.5, 2.0, 1.0, -0.25))
    # keep a >= |b| * |B| + 1 so that the element is inside the stated domain whatever the sign of B^2
    nb = max(abs(float(c)) for c in E.values())
    b = b / max(1.0, nb)
    kd = iso.from_ref(E)
    keys = (0,) + tuple(kd)
    vals = [a] + [float(kd[k]) * b for k in kd]
    wide = rng.random()
    if wide < 0.25:
        # positive scalar part, but a non-scalar part that outweighs it (for B^2 > 0 the Study norm a^2 - b^2 B^2 is negative and its
        # root complex): still a Study number with positive scalar part
        a = float(rng.choice((0.5, 1.0, 2.0)))
        b = rng.choice((1.5, -2.0, 3.0, 2.5)) * (1 + a)
        vals = [a] + [float(kd[k]) * b for k in kd]
        ctx.count('sqrt_nonscalar_part_outweighs_scalar')
    elif wide < 0.45:
        # complex coefficients (scalar part with positive real part)
        a = complex(rng.choice((2, 3, 5)), rng.choice((-1, 0, 1, 2)))
        b = complex(rng.choice((0.5, -1.0, 2.0)), rng.choice((-2.0, 0.5, 1.0)))
        vals = [a] + [float(kd[k]) * b for k in kd]
        ctx.count('sqrt_complex_coefficients')
    if rng.random() < 0.3:
        order = list(range(len(keys)))
        rng.shuffle(order)
        keys = tuple(keys[i] for i in order)
        vals = [vals[i] for i in order]
    x = gen.mv_from(alg, keys, vals)
    cid = [name, 'sqrt', {alg.bin2canon[k]: v for k, v in zip(keys, vals)}]
    if not ctx.want(cid):
        return
    st, out2 = ctx.guarded(TO, lambda: (x.sqrt(), x ** 0.5))
    if st != 'ok':
        if st == 'exc':
            ctx.note_raised(out2, 'sqrt')
        return
    s, p = out2
    ctx.count('sqrt_squares_back')
    ctx.count('sqrt_B2_positive' if sq > 0 else ('sqrt_B2_negative' if sq < 0 else 'sqrt_B2_zero'))
    ctx.case(cid)
    wit = dict(config=cfg, operand={alg.bin2canon[k]: v for k, v in zip(keys, vals)}, B_square_sign=sq, rotated=rotated)
    st2, ss = ctx.guarded(TO, lambda: s * s)
    if st2 == 'ok':
        bad = elem_diff(mv_dict(ss), mv_dict(x), tol=1e-8)
        if bad:
            ctx.violation('sqrt(x)*sqrt(x) != x', cid, sqrt=show_elem(mv_dict(s)), squared=show_elem(mv_dict(ss)), **wit)
    ctx.count('pow_half_is_sqrt')
    if elem_diff(mv_dict(p), mv_dict(s), tol=1e-9):
        ctx.violation('x**0.5 != x.sqrt()', cid + ['pow'], pow_half=show_elem(mv_dict(p)), sqrt=show_elem(mv_dict(s)), **wit)


def pow_case(ctx, alg, iso, cfg, name):
    rng = ctx.rng
    R = iso.ref
    canon = tuple(alg.canon2bin.values())
    ks = gen.random_subset(rng, canon, 3, 1)
    vals = {k: Fr(gen.small_int(rng, -3, 3, nonzero=True), rng.choice((1, 2))) for k in ks}
    x = ops.value_mv(alg, ks, vals)
    X = iso.mv_to_ref(x)
    n = rng.choice((0, 1, 2, 3, 4, -1, -2, -3))
    cid = [name, 'pow', list(ks), [str(v) for v in vals.values()], n]
    if not ctx.want(cid):
        return
    st, r = ctx.guarded(TO, lambda: x ** n)
    if st != 'ok':
        if st == 'exc':
            ctx.note_raised(r, 'pow')
        return
    if n >= 0:
        want = R.power(X, n)
    else:
        Xi = R.inverse(X)
        if Xi is None:
            ctx.violation('x**-n returned a value for a singular operand', cid, config=cfg, keys=list(ks), values=[str(v) for v in vals.values()])
            return
        want = R.power(Xi, -n)
        ctx.count('negative_powers')
    ctx.count('integer_powers')
    ctx.case(cid)
    bad = elem_diff(iso.mv_to_ref(r), want, tol=1e-9 if alg.d <= 5 else 1e-6)
    if bad:
        ctx.violation('x**n is not the repeated product', cid, config=cfg, keys=list(ks), values=[str(v) for v in vals.values()], n=n,
                      got=show_elem(iso.mv_to_ref(r)), expected=show_elem(want))
    # the same power written inside a registered (compiled) function
    if rng.random() < 0.5:
        ns = {}
        exec(f'def pw{abs(n)}{"m" if n < 0 else "p"}(x):\n    return x ** {n}\n', ns)
        fn = [v for k, v in ns.items() if k.startswith('pw')][0]
        st2, r2 = ctx.guarded(TO, lambda: alg.register(fn)(x))
        if st2 == 'ok':
            ctx.count('integer_powers_in_registered_function')
            if elem_diff(iso.mv_to_ref(r2), want, tol=1e-9 if alg.d <= 5 else 1e-6):
                ctx.violation('x**n inside a registered function is not the repeated product', cid + ['registered'], config=cfg, keys=list(ks),
                              values=[str(v) for v in vals.values()], n=n, got=show_elem(iso.mv_to_ref(r2)), expected=show_elem(want))
        elif st2 == 'exc':
            ctx.note_raised(r2, 'pow-registered')


def norm_case(ctx, alg, iso, cfg, name):
    rng = ctx.rng
    R = iso.ref
    out = simple_element(ctx, alg, iso, rng.random() < 0.5)
    if out is None:
        return
    E, sq, rotated = out
    nsq = R.normsq(E)
    nsq = {k: v for k, v in nsq.items() if v != 0}
    if not nsq:
        # a null element: normsq(x) = 0, so norm(x) is the number whose square that is
        kd0 = iso.from_ref(E)
        keys0 = tuple(kd0)
        vals0 = [float(kd0[k]) for k in keys0]
        x0 = gen.mv_from(alg, keys0, vals0)
        cid0 = [name, 'norm-null', {alg.bin2canon[k]: v for k, v in zip(keys0, vals0)}]
        if not ctx.want(cid0):
            return
        stq, q0 = ctx.guarded(TO, lambda: x0.normsq())
        stn, n0 = ctx.guarded(TO, lambda: x0.norm())
        if stq != 'ok' or stn == 'timeout':
            return
        ctx.count('norm_of_null_elements')
        ctx.case(cid0)
        wit0 = dict(config=cfg, operand={alg.bin2canon[k]: v for k, v in zip(keys0, vals0)}, normsq=show_elem(mv_dict(q0)) if hasattr(q0, 'keys') else repr(q0))
        if stn == 'exc':
            ctx.note_raised(n0, 'norm-null')
            ctx.violation('norm() raises although normsq() returns (norm squared is normsq has no left-hand side)', cid0 + ['raises'],
                          error=f'{type(n0).__name__}: {str(n0)[:120]}', exc_type=type(n0).__name__, **wit0)
            return
        nd = mv_dict(n0) if hasattr(n0, 'keys') else {0: n0}
        if elem_diff(nd, {}, tol=1e-12):
            ctx.violation('norm() of a null element is not 0', cid0 + ['value'], norm=show_elem(nd), **wit0)
        return
    if set(nsq) - {0} or not nsq.get(0):
        return
    scale = rng.choice((0.5, 2.0, -1.5, 3.0))
    kd = iso.from_ref(E)
    keys = tuple(kd)
    vals = [float(kd[k]) * scale for k in keys]
    x = gen.mv_from(alg, keys, vals)
    cid = [name, 'norm', {alg.bin2canon[k]: v for k, v in zip(keys, vals)}]
    if not ctx.want(cid):
        return
    st, out2 = ctx.guarded(TO, lambda: (x.norm(), x.normsq(), x.normalized()))
    if st != 'ok':
        if st == 'exc':
            ctx.note_raised(out2, 'norm')
        return
    nrm, nq, unit = out2
    ctx.count('norm_identities')
    ctx.case(cid)
    wit = dict(config=cfg, operand={alg.bin2canon[k]: v for k, v in zip(keys, vals)}, normsq_sign=(1 if nsq[0] > 0 else -1))
    st2, sq2 = ctx.guarded(TO, lambda: nrm * nrm)
    if st2 == 'ok' and elem_diff(mv_dict(sq2), mv_dict(nq), tol=1e-9):
        ctx.violation('norm()*norm() != normsq()', cid + ['norm'], norm=show_elem(mv_dict(nrm)), normsq=show_elem(mv_dict(nq)), **wit)
    want = float(nsq[0]) * scale * scale
    if elem_diff(mv_dict(nq), {0: want}, tol=1e-9):
        ctx.violation('normsq() != x * ~x', cid + ['normsq'], normsq=show_elem(mv_dict(nq)), expected=want, **wit)
    st3, un = ctx.guarded(TO, lambda: unit.normsq())
    if st3 == 'ok' and elem_diff(mv_dict(un), {0: 1.0}, tol=1e-9):
        ctx.violation('normalized(x) does not have squared norm 1', cid + ['normalized'], normalized=show_elem(mv_dict(unit)),
                      its_normsq=show_elem(mv_dict(un)), **wit)
    # the same object after an in-place coefficient update (what a widget drag or x[...] = ... does): norm, normsq and normalized
    # describe the coefficients it holds now, i.e. equal those of a fresh multivector built from them
    f = rng.choice((2.0, 0.5, -3.0))
    xv = x.values()
    for j in range(len(xv)):
        xv[j] = xv[j] * f
    fresh = gen.mv_from(alg, keys, [v * f for v in vals])
    st4, o4 = ctx.guarded(TO, lambda: (x.norm(), x.normsq(), x.normalized(), fresh.norm(), fresh.normsq(), fresh.normalized()))
    if st4 == 'ok':
        ctx.count('norm_after_inplace_update_compared')
        for nm, a, b in zip(('norm', 'normsq', 'normalized'), o4[:3], o4[3:]):
            if elem_diff(mv_dict(a), mv_dict(b), tol=1e-9):
                ctx.violation(f'{nm}() after an in-place coefficient update differs from {nm}() of a fresh multivector with the same coefficients',
                              cid + ['inplace', nm], factor=f, on_updated_object=show_elem(mv_dict(a)), on_fresh_object=show_elem(mv_dict(b)), **wit)

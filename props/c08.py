"""C08 - results do not depend on how an operand is stored."""
import random
from fractions import Fraction as Fr

from kvm import gen, ops
from kvm.iso import Iso
from kvm.ring import FreePoly
from kvm.compare import elem_diff, show_elem, mv_dict

META = {
    'level': 'exploration',
    'rule': ('one case = (configuration, operator, canonical sparse operands, layout variant of each operand: permutation of its key tuple, '
             'zero-padded superset up to dense canonical / dense binary order, or both). The operator is executed on both layouts (polynomial '
             'indeterminates for the polynomial operators, Fractions for inv/div/outertan, floats inside the stated domains for '
             'sqrt/exp/norm/normalized/powers) and the results are compared as elements. A case counts only if the two calls used different '
             'key tuples (= different cache entries / different generated functions).'),
    'assumptions': ['element equality of kvm/compare.py (absent blade = 0, 1e-9 relative for floats)'],
}
SHARD_DEADLINE = {'quick': 300, 'thorough': 3300}
CASE_TIMEOUT = {'quick': 25, 'thorough': 120}
SERIES = ['exp', 'sqrt', 'norm', 'normalized', 'pow2', 'pow3', 'pow-1', 'pow0.5']
REGISTERED = ['reg_grade', 'reg_mix', 'reg_unary']
ALLOPS = ops.BINARY + [o for o in ops.UNARY if o != 'sqrt'] + SERIES + REGISTERED
_REG = {}


def registered(alg, op):
    key = (id(alg), op)
    if key not in _REG:
        if op == 'reg_grade':
            def reg_grade(a, b):
                return (a * b).grade(1, 2) + a.grade(0, 2) - b.grade(1)
            _REG[key] = alg.register(reg_grade)
        elif op == 'reg_mix':
            def reg_mix(a, b):
                return (a ^ b) + 2 * (a | b) - ~b
            _REG[key] = alg.register(reg_mix)
        else:
            def reg_unary(a):
                return a.reverse().grade(0, 1, 2) * 3 - a.involute()
            _REG[key] = alg.register(reg_unary)
    return _REG[key]


def floors(tier):
    f = {'distinct_nontrivial': 2500 if tier == 'quick' else 60000, 'variant_permuted': 600, 'variant_padded': 600,
         'variant_dense': 100, 'exception_parity_checked': 20, 'wrapper_configured_cases': 300, 'highdim_inverse_layout_cases': 15}
    for o in ALLOPS:
        f['op_' + o] = (25 if tier == 'quick' else 300) if 'polarity' not in o else (10 if tier == 'quick' else 100)
    return f


def plan(tier, seed):
    rng = random.Random(f'C08-plan-{seed}')
    U = []
    if tier == 'quick':
        cfgs = gen.sig_orderings(1, 2) + rng.sample(gen.sig_orderings(3, 3), 12) + rng.sample(gen.pqr_all(4, 4), 5)
        cfgs += [gen.random_custom_cfg(rng, rng.choice((2, 3, 3))) for _ in range(6)] + gen.NAMED[:2]
        cfgs += [dict(c, opts={'wrapper': w}) for c, w in zip(rng.sample(gen.sig_orderings(2, 3), 6), ('wraps', 'identity') * 3)]
        per = 5
        nshards = 16
    else:
        cfgs = gen.sig_orderings(1, 3) + gen.pqr_all(4, 4) + rng.sample(gen.pqr_all(5, 5), 6)
        cfgs += [gen.random_custom_cfg(rng, rng.choice((2, 3, 3, 4))) for _ in range(40)] + gen.NAMED
        cfgs += [dict(c, opts={'wrapper': w}) for c, w in zip(rng.sample(gen.sig_orderings(2, 3), 24), ('wraps', 'identity') * 12)]
        cfgs += [dict(c, opts={'cse': False}) for c in rng.sample(gen.sig_orderings(2, 3), 6)]
        per = 22
        nshards = 64
    for c in cfgs:
        U.append({'cfg': c, 'per_op': per})
    # d >= 6: the inverse switches to the iterative scheme; layouts of homogeneous operands there
    for c in ([{'p': 6, 'q': 0, 'r': 0}, {'p': 4, 'q': 2, 'r': 0}, {'p': 5, 'q': 0, 'r': 1}, {'p': 3, 'q': 3, 'r': 0}] if tier == 'quick' else rng.sample(gen.pqr_all(6, 6), 16) + rng.sample(gen.pqr_all(7, 7), 6)):
        U.append({'cfg': c, 'highdim': 9 if tier == 'quick' else 14})
    rng.shuffle(U)
    return [{'units': part} for part in gen.split(U, nshards)]


def variant(rng, keys, canon, d, composite):
    """Returns (new keys, padding set, kind)."""
    kind = rng.choice(('perm', 'pad', 'both', 'dense'))
    maxpad = (2 if d >= 4 else 3) if composite else (6 if d >= 4 else len(canon))
    if kind == 'dense' and (not composite or d <= 3) and len(canon) <= 16:
        nk = tuple(canon) if rng.random() < 0.5 else tuple(range(len(canon)))
        return nk, set(nk) - set(keys), 'dense'
    if kind in ('perm',) or not [k for k in canon if k not in keys]:
        nk = gen.permuted(rng, keys)
        return nk, set(), 'perm'
    nk, extra = gen.padded(rng, keys, canon, maxpad)
    if kind == 'pad':
        pos = {k: i for i, k in enumerate(canon)}
        nk = tuple(sorted(nk, key=pos.__getitem__))
    return nk, extra, 'pad' if extra else 'perm'


def mk(alg, keys, valmap, zero):
    return gen.mv_from(alg, keys, [valmap.get(k, zero) for k in keys])


def run_shard(shard, ctx):
    for unit in shard['units']:
        cfg = unit['cfg']
        name = gen.cfg_str(cfg)
        alg = gen.make_or_skip(ctx, cfg)
        if alg is None:
            continue
        iso = Iso(alg)
        ctx.count('algebras')
        if unit.get('highdim'):
            for j in range(unit['highdim']):
                if ctx.out_of_time():
                    ctx.count('cases_skipped_out_of_time')
                    return
                highdim_layout_case(ctx, alg, iso, cfg, name)
            continue
        for op in ALLOPS:
            for j in range(unit['per_op']):
                if ctx.out_of_time():
                    ctx.count('cases_skipped_out_of_time')
                    return
                one_case(ctx, alg, iso, cfg, name, op)


def series_operand(ctx, alg, iso, op):
    """Operands inside the stated domains: simple blades for exp, Study numbers with positive scalar part for sqrt."""
    rng = ctx.rng
    canon = tuple(alg.canon2bin.values())
    nonscalar = [k for k in canon if k != 0]
    if not nonscalar:
        return None
    k = rng.choice(nonscalar)
    if op == 'exp':
        return {k: rng.choice((0.5, -1.25, 2.0, 0.75))}
    if op in ('sqrt', 'pow0.5'):
        return {0: float(rng.choice((3, 4, 5))), k: rng.choice((0.5, -1.5, 2.0, 1.0))}
    if op in ('norm', 'normalized'):
        # an element with positive normsq: scalar + blade with small coefficient
        return {0: float(rng.choice((3, 4, 5))), k: rng.choice((0.5, -1.5, 1.0))}
    ks = gen.random_subset(rng, canon, 3, 1)
    return {kk: float(gen.small_int(rng, -3, 3, nonzero=True)) for kk in ks}


def apply(alg, op, mvs):
    if op in ops.BINARY or op in ops.UNARY:
        return ops.call_op(alg, op, *mvs)
    if op in REGISTERED:
        return registered(alg, op)(*mvs)
    x = mvs[0]
    if op == 'exp':
        return x.exp()
    if op == 'norm':
        return x.norm()
    if op == 'normalized':
        return x.normalized()
    if op.startswith('pow'):
        p = float(op[3:]) if '.' in op else int(op[3:])
        return x ** p
    raise KeyError(op)


def one_case(ctx, alg, iso, cfg, name, op):
    rng = ctx.rng
    d = alg.d
    canon = tuple(alg.canon2bin.values())
    to = CASE_TIMEOUT[ctx.tier]
    composite = op in ops.COMPOSITE_BIN or op in ops.COMPOSITE_UN or op in SERIES
    arity = 2 if (op in ops.BINARY or op in ('reg_grade', 'reg_mix')) else 1
    cap = 4 if composite else 8
    if op in SERIES:
        vm = series_operand(ctx, alg, iso, op)
        if vm is None:
            return
        pos = {k: i for i, k in enumerate(canon)}
        valmaps = [vm]
        keysets = [tuple(sorted(vm, key=pos.__getitem__))]
        zero = 0.0
    elif op in ops.POLYNOMIAL or op in REGISTERED:
        keysets = [gen.random_subset(rng, canon, cap, 1) for _ in range(arity)]
        valmaps = [{k: FreePoly.var(f'{p}{k}') for k in ks} for ks, p in zip(keysets, 'ab')]
        zero = FreePoly.const(0) if rng.random() < 0.5 else 0
    else:
        keysets = [gen.random_subset(rng, canon, cap, 1) for _ in range(arity)]
        valmaps = [{k: gen.small_frac(rng, nonzero=True) for k in ks} for ks in keysets]
        zero = Fr(0)
    variants = [variant(rng, ks, canon, d, composite) for ks in keysets]
    if all(v[0] == ks for v, ks in zip(variants, keysets)):
        ctx.count('trivial_variant_not_counted')
        return
    cid = [name, op, [list(k) for k in keysets], [list(v[0]) for v in variants],
           [[str(vm[k]) for k in ks] for vm, ks in zip(valmaps, keysets)] if (op not in ops.POLYNOMIAL and op not in REGISTERED) else 'generic']
    if not ctx.want(cid):
        return
    base = [mk(alg, ks, vm, zero) for ks, vm in zip(keysets, valmaps)]
    var = [mk(alg, v[0], vm, zero) for v, vm in zip(variants, valmaps)]
    st1, r1 = ctx.guarded(to, apply, alg, op, base)
    st2, r2 = ctx.guarded(to, apply, alg, op, var)
    if 'timeout' in (st1, st2):
        ctx.count('case_timeouts')
        return
    wit = dict(config=cfg, op=op, keys_canonical=[list(k) for k in keysets], keys_variant=[list(v[0]) for v in variants],
               variant_kinds=[v[2] for v in variants],
               values=[[str(vm[k]) for k in ks] for vm, ks in zip(valmaps, keysets)])
    if st1 == 'exc' or st2 == 'exc':
        ctx.count('exception_parity_checked')
        e1 = type(r1).__name__ if st1 == 'exc' else None
        e2 = type(r2).__name__ if st2 == 'exc' else None
        ctx.note_raised(r1 if st1 == 'exc' else r2, op)
        rr = r1 if st1 == 'exc' else r2
        if not isinstance(rr, ZeroDivisionError) and len(ctx.notes) < 5:
            ctx.notes.append(f'{op} raised on both layouts {type(rr).__name__}: {str(rr)[:120]} | {name} keys {[list(k) for k in keysets]}')
        if (e1 is None) != (e2 is None):
            val = r2 if e1 else r1
            ctx.violation('one layout raises, the other returns a value', cid, canonical=e1 or 'value', variant=e2 or 'value',
                          error=repr(r1 if e1 else r2)[:200], value=show_elem(mv_dict(val)) if hasattr(val, 'keys') else repr(val)[:200], **wit)
        return
    ctx.count('op_' + op)
    if cfg.get('opts', {}).get('wrapper'):
        ctx.count('wrapper_configured_cases')
    for v in variants:
        ctx.count({'perm': 'variant_permuted', 'pad': 'variant_padded', 'dense': 'variant_dense'}[v[2]])
    ctx.case(cid)
    if ctx.evaluations % 150 == 1:
        ctx.sample({k: wit[k] for k in ('op', 'keys_canonical', 'keys_variant', 'variant_kinds')} | {'config': name})
    g1 = mv_dict(r1) if hasattr(r1, 'keys') else {0: r1}
    g2 = mv_dict(r2) if hasattr(r2, 'keys') else {0: r2}
    bad = elem_diff(g1, g2)
    if bad:
        ctx.violation('result depends on operand layout', cid, blades=[alg.bin2canon[k] for k in bad[:6]],
                      canonical_result=show_elem({k: g1.get(k, 0) for k in bad[:4]}),
                      variant_result=show_elem({k: g2.get(k, 0) for k in bad[:4]}), **wit)
    # a well-formed result names every blade once; and what is done next with the result must not depend on the layout either
    for label, r_ in (('canonical', r1), ('variant', r2)):
        if hasattr(r_, 'keys') and ops.has_dupes(tuple(r_.keys())):
            ctx.violation('result depends on operand layout', cid + ['duplicate-keys', label], blades=[alg.bin2canon.get(k, k) for k in r_.keys()],
                          canonical_result=f'keys {list(r1.keys())}', variant_result=f'keys {list(r2.keys())}',
                          where=f'the result for the {label} layout stores a blade twice', **wit)
            bad = True
    if not bad and hasattr(r1, 'keys') and hasattr(r2, 'keys') and (op in SERIES or rng.random() < 0.1) and len(r1.keys()) <= 8:
        stf, f12 = ctx.guarded(to, lambda: (r1 * r1 + ~r1, r2 * r2 + ~r2))
        if stf == 'ok':
            ctx.count('follow_up_operations_compared')
            badf = elem_diff(mv_dict(f12[0]), mv_dict(f12[1]))
            if badf:
                ctx.violation('result depends on operand layout', cid + ['follow-up'], blades=[alg.bin2canon[k] for k in badf[:6]],
                              canonical_result=show_elem({k: mv_dict(f12[0]).get(k, 0) for k in badf[:4]}),
                              variant_result=show_elem({k: mv_dict(f12[1]).get(k, 0) for k in badf[:4]}),
                              where='r*r + ~r computed from the two results r', **wit)
    # the two layouts of the second operand side by side in one list / tuple operand: each element of the result sequence is the
    # result for that element (which denotes the same multivector both times)
    if op in ops.BINARY and not bad and rng.random() < 0.25:
        seq_t = rng.choice((list, tuple))
        order = rng.choice(((0, 1), (1, 0), (0, 1, 1), (1, 0, 0)))
        elems = [base[1], var[1]]
        seq = seq_t(elems[i] for i in order)
        sts, rs = ctx.guarded(to, lambda: getattr(alg, op)(base[0], seq))
        if sts == 'ok' and isinstance(rs, (list, tuple)) and len(rs) == len(seq):
            ctx.count('sequence_operand_mixed_layout_cases')
            for j, rj in enumerate(rs):
                gj = mv_dict(rj) if hasattr(rj, 'keys') else {0: rj}
                badj = elem_diff(gj, g1)
                if badj:
                    ctx.violation('result depends on operand layout', cid + ['sequence', list(order), j], blades=[alg.bin2canon[k] for k in badj[:6]],
                                  canonical_result=show_elem({k: g1.get(k, 0) for k in badj[:4]}),
                                  variant_result=show_elem({k: gj.get(k, 0) for k in badj[:4]}),
                                  where=f'element {j} of x {op} <{seq_t.__name__} holding the layouts in order {list(order)}>', **wit)
                    break
        elif sts == 'exc':
            ctx.violation('one layout raises, the other returns a value', cid + ['sequence', list(order)], canonical='value', variant=type(rs).__name__,
                          error=repr(rs)[:200], where='x op <sequence holding both layouts of the second operand>', **wit)


def highdim_layout_case(ctx, alg, iso, cfg, name):
    """d >= 6 (the iterative inverse): a homogeneous element stored sparsely, permuted, and padded with an explicit zero of ANOTHER grade
    must have the same inverse.  Both layouts are executed with 400-bit mpmath coefficients, so that the double-precision cancellation
    of the d >= 6 inverse (known finding C07/iterative-inverse-float-cancellation) cannot show up as a layout difference."""
    try:
        import mpmath
    except Exception:
        ctx.count('mpmath_missing')
        return
    rng = ctx.rng
    canon = tuple(alg.canon2bin.values())
    d = alg.d
    g = rng.choice((1, 2, 2, 2, 3))
    blades = [k for k in canon if bin(k).count('1') == g]
    ks = tuple(rng.sample(blades, rng.randint(1, 2)))
    others = [k for k in canon if bin(k).count('1') != g and bin(k).count('1') <= 4]
    pad = rng.choice(others)
    vals = {k: Fr(rng.choice((1, 2, 3, -2, 5)), rng.choice((1, 2))) for k in ks}
    layouts = {'sparse': ks, 'permuted': tuple(reversed(ks)), 'zero of another grade': tuple(sorted(ks + (pad,)))}
    if len(ks) == 1:
        del layouts['permuted']
    cid = [name, 'inv-highdim', list(ks), pad, [str(vals[k]) for k in ks]]
    if not ctx.want(cid):
        return
    old = mpmath.mp.prec
    mpmath.mp.prec = 400
    try:
        res = {}
        for lname, lk in layouts.items():
            x = gen.mv_from(alg, lk, [mpmath.mpf(vals[k].numerator) / vals[k].denominator if k in vals else mpmath.mpf(0) for k in lk])
            st, r = ctx.guarded(120, lambda: x.inv())
            if st == 'timeout':
                ctx.count('case_timeouts')
                return
            res[lname] = ('exc', type(r).__name__) if st == 'exc' else ('ok', mv_dict(r))
        ctx.count('highdim_inverse_layout_cases')
        ctx.case(cid)
        base = res['sparse']
        for lname, other in res.items():
            if lname == 'sparse':
                continue
            wit = dict(config=cfg, op='inv', keys=list(ks), values=[str(vals[k]) for k in ks], layout=lname, layout_keys=list(layouts[lname]))
            if base[0] != other[0]:
                ctx.violation('one layout raises, the other returns a value', cid + [lname], sparse=base[1] if base[0] == 'exc' else 'value',
                              variant=other[1] if other[0] == 'exc' else 'value', **wit)
            elif base[0] == 'ok':
                bad = [k for k in set(base[1]) | set(other[1])
                       if abs(mpmath.mpmathify(base[1].get(k, 0)) - mpmath.mpmathify(other[1].get(k, 0))) > mpmath.mpf(10) ** -30]
                if bad:
                    ctx.violation('result depends on operand layout', cid + [lname], blades=[alg.bin2canon[k] for k in bad[:6]],
                                  canonical_result=str({alg.bin2canon[k]: mpmath.nstr(mpmath.mpmathify(base[1].get(k, 0)), 12) for k in bad[:4]}),
                                  variant_result=str({alg.bin2canon[k]: mpmath.nstr(mpmath.mpmathify(other[1].get(k, 0)), 12) for k in bad[:4]}), **wit)
    finally:
        mpmath.mp.prec = old

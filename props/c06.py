"""C06 - sandwich, projection and squared norm equal their defining compositions."""
import random

from kvm import gen, ops, workload
from kvm.iso import Iso
from kvm.compare import elem_diff, show_elem, mv_dict

META = {
    'level': 'exploration',
    'rule': ('one case = (configuration incl. cse setting, operator in sw/proj/normsq, ordered key tuples): the real generated composite '
             'function (symbolically pre-simplified by kingdon) is executed on polynomial indeterminates; its coefficient polynomials must '
             'equal (i) a*b*~a, (a|b)*~b, a*~a composed from kingdon\'s own elementary operators on the same indeterminates and (ii) the '
             'reference polynomials; a blade absent from the result must have an identically zero reference polynomial (this is implied '
             'by element equality, absent = 0). Distinct = distinct (config, op, keys).'),
    'assumptions': ['kvm/refmodel.py', 'kvm/iso.py', 'kvm/ring.py'],
}
SHARD_DEADLINE = {'quick': 300, 'thorough': 3300}
CASE_TIMEOUT = {'quick': 20, 'thorough': 120}


def floors(tier):
    return {'distinct_nontrivial': 1500 if tier == 'quick' else 80000, 'generic_sw': 500, 'generic_proj': 500,
            'generic_normsq': 200, 'own_composition_compared': 1200, 'blades_dropped_by_presimplification': 200,
            'cse_false_cases': 100, 'graded_mode_cases': 100, 'reflected_entry_point_cases': 100,
            'grade_ge_6_operand_cases': 30, 'sibling_algebra_cases': 60}


def plan(tier, seed):
    rng = random.Random(f'C06-plan-{seed}')
    U = []
    u = workload.units_for
    d2 = gen.sig_orderings(2, 2)
    d3 = gen.sig_orderings(3, 3)
    if tier == 'quick':
        for c in gen.sig_orderings(1, 1):
            U += u(c, 'exh_canon')
        for c in [{'signature': [1, 1]}, {'signature': [0, 1]}, {'signature': [1, -1]}]:
            U += u(c, 'exh_canon', 4)
        U += u(dict({'signature': [-1, 0]}, opts={'cse': False}), 'exh_canon_sample', 2, frac=0.5)
        for c in rng.sample(d3, 14):
            U += u(c, 'gradeblocks', 1, count=50, cap=4)
            U += u(c, 'sparse', 1, count=120, cap=4, perm=0.3)
        U += u(dict({'p': 3, 'q': 0, 'r': 0}, opts={'cse': False}), 'sparse', 1, count=30, cap=4)
        for c in rng.sample(gen.pqr_all(4, 4), 5) + rng.sample(gen.pqr_all(5, 5), 3):
            U += u(c, 'gradeblocks', 1, count=10, cap=6)
            U += u(c, 'sparse', 1, count=25, cap=3 if gen.cfg_dim(c) == 5 else 4)
        for _ in range(8):
            U += u(gen.random_custom_cfg(rng, rng.choice((2, 3, 3, 4))), 'sparse', 1, count=30, cap=4)
        for c in gen.NAMED[:2]:
            U += u(c, 'sparse', 1, count=10, cap=4)
        for c, w in zip(rng.sample(d3, 3), ('wraps', 'identity', 'wraps')):
            U += u(dict(c, opts={'wrapper': w}), 'sparse', 1, count=25, cap=4, perm=0.6, min_size=2)
        for c in ({'p': 5, 'q': 0, 'r': 0}, {'p': 4, 'q': 1, 'r': 0}, {'p': 4, 'q': 0, 'r': 1}):
            U += u(c, 'highgrade', 1, count=12, cap=3)
        for c in ({'p': 2, 'q': 0, 'r': 1}, {'p': 1, 'q': 0, 'r': 1}, {'p': 1, 'q': 1, 'r': 1}, {'p': 3, 'q': 0, 'r': 0}, {'p': 2, 'q': 0, 'r': 0}):
            U += u(dict(c, opts={'graded': True}), 'gradeblocks', 1, count=30, cap=7)
        # the symbolic zero filter switched off (simp_func=None): identically vanishing coefficients then reach the code generator as zeros
        for c in ({'p': 3, 'q': 0, 'r': 0}, {'p': 2, 'q': 0, 'r': 1}, {'p': 2, 'q': 1, 'r': 0}, {'p': 3, 'q': 0, 'r': 1}):
            U += u(dict(c, opts={'simp_func': 'none'}), 'gradeblocks', 1, count=25, cap=4)
            U += u(dict(c, opts={'simp_func': 'none'}), 'sparse', 1, count=25, cap=3)
        # grades 4..7 (the involution signs repeat with period 4: grade 6, 7 behave like 2, 3) - few blades, d = 6 and 7
        for c in ({'p': 6, 'q': 0, 'r': 0}, {'p': 4, 'q': 1, 'r': 1}, {'p': 7, 'q': 0, 'r': 0}, {'signature': gen.random_sig(rng, 7)}):
            U += u(c, 'highgrade', 1, count=10, cap=3)
        # algebras with equal (p, q, r) and different sign tables side by side in one process, on the same key patterns
        U += workload.sibling_units(gen.sibling_sets(rng, (2, 3, 4), 1), 'sparse', count=8, cap=3)
        nshards = 16
    else:
        for c in gen.sig_orderings(1, 1):
            U += u(c, 'exh_ordered')
        for c in d2:
            U += u(c, 'exh_canon', 4)
            U += u(dict(c, opts={'cse': False}), 'exh_canon_sample', 2, frac=0.3)
            U += u(c, 'sparse', 1, count=400, cap=4, perm=1.0)
        for c in d3:
            U += u(c, 'gradeblocks', 1, count=60, cap=4)
            U += u(c, 'sparse', 2, count=250, cap=4, perm=0.3)
        for c in rng.sample(d3, 8):
            U += u(dict(c, opts={'cse': False}), 'sparse', 1, count=300, cap=4)
        for c in gen.pqr_all(4, 5):
            U += u(c, 'gradeblocks', 1, count=20, cap=6)
            U += u(c, 'sparse', 2, count=120, cap=3 if gen.cfg_dim(c) == 5 else 4)
        for _ in range(300):
            U += u(gen.random_custom_cfg(rng, rng.choice((2, 3, 3, 4, 4))), 'sparse', 1, count=60, cap=4)
        for c in gen.NAMED:
            U += u(c, 'sparse', 2, count=25, cap=3 if c['named'] == 'STAP' else 4)
        for c in gen.pqr_all(2, 3):
            U += u(dict(c, opts={'graded': True}), 'gradeblocks', 1, count=80, cap=7)
        for c in gen.pqr_all(2, 3) + rng.sample(gen.pqr_all(4, 4), 4):
            U += u(dict(c, opts={'simp_func': 'none'}), 'gradeblocks', 1, count=40, cap=4)
            U += u(dict(c, opts={'simp_func': 'none'}), 'sparse', 1, count=60, cap=3)
        for c in gen.pqr_all(6, 6)[::3] + gen.pqr_all(7, 7)[::5] + [{'signature': gen.random_sig(rng, 7)} for _ in range(4)] + [{'p': 8, 'q': 0, 'r': 0}]:
            U += u(c, 'highgrade', 1, count=12, cap=3)
        U += workload.sibling_units(gen.sibling_sets(rng, (2, 3, 3, 4), 5), 'sparse', count=20, cap=3)
        nshards = 64
    rng.shuffle(U)
    return [{'units': part} for part in gen.split(U, nshards)]


def run_shard(shard, ctx):
    algs = {}
    to = CASE_TIMEOUT[ctx.tier]
    for unit, cfg, name, alg, iso, (kx, ky) in workload.iter_cases(shard, ctx, algs, Iso):
        if True:
            if ctx.out_of_time():
                ctx.count('patterns_skipped_out_of_time')
                break
            if unit['fam'] == 'highgrade' and alg.d >= 6:
                ctx.count('grade_ge_6_operand_cases')
            a, b = ops.generic_mv(alg, kx, 'a'), ops.generic_mv(alg, ky, 'b')
            for op in ('sw', 'proj', 'normsq'):
                keysets = (kx,) if op == 'normsq' else (kx, ky)
                cid = [name, op] + [list(k) for k in keysets]
                if not ctx.want(cid):
                    continue
                if op == 'normsq' and ctx.rng.random() < 0.5 and not (unit['fam'] == 'highgrade' and alg.d >= 6):
                    continue
                st, r = ops.check_generic(ctx, alg, iso, cfg, op, keysets, cid, timeout=to)
                if st in ('timeout', 'raised'):
                    continue
                ctx.count('generic_' + op)
                if ctx.rng.random() < 0.12:
                    ops.check_special_values(ctx, alg, iso, cfg, op, keysets, cid, timeout=to)
                if cfg.get('opts', {}).get('cse') is False:
                    ctx.count('cse_false_cases')
                if cfg.get('opts', {}).get('graded'):
                    ctx.count('graded_mode_cases')
                if cfg.get('opts', {}).get('simp_func'):
                    ctx.count('zero_filter_switched_off_cases')
                ctx.case(cid)
                if ctx.evaluations % 200 == 1:
                    ctx.sample({'config': name, 'op': op, 'keys_in': [list(k) for k in keysets], 'keys_out': list(r.keys())})
                # the same object after an in-place coefficient update
                if kx and ctx.rng.random() < 0.06:
                    call = {'sw': lambda x, y: x.sw(y), 'proj': lambda x, y: x.proj(y), 'normsq': lambda x: x.normsq()}[op]
                    ops.check_inplace_staleness(ctx, alg, cfg, call, kx, cid, op, other_keys=None if op == 'normsq' else ky, timeout=to)
                # the same operator reached through the reflected entry point (left operand not a multivector)
                if op in ('sw', 'proj') and ctx.rng.random() < 0.15:
                    sym = {'sw': '>>', 'proj': '@'}[op]
                    for label, left in (('list', [a]), ('callable', (lambda a=a: a))):
                        st3, r3 = ctx.guarded(to, lambda: eval(f'left {sym} b', {'left': left, 'b': b}))
                        if st3 == 'ok':
                            ctx.count('reflected_entry_point_cases')
                            r3 = r3[0] if isinstance(r3, list) else r3
                            if elem_diff(mv_dict(r3), mv_dict(r)):
                                ctx.violation(f'<{label}> {sym} b differs from a {sym} b', cid + ['reflected', label], config=cfg, op=op,
                                              keys_in=[list(k) for k in keysets], got=show_elem(mv_dict(r3)), expected=show_elem(mv_dict(r)))
                        elif st3 == 'exc':
                            ctx.note_raised(r3, 'reflected-' + op)
                own = {'sw': lambda: a * b * ~a, 'proj': lambda: (a | b) * ~b, 'normsq': lambda: a * ~a}[op]
                st2, w = ctx.guarded(to, own)
                if st2 != 'ok':
                    if st2 == 'exc':
                        ctx.note_raised(w, 'own-' + op)
                    continue
                ctx.count('own_composition_compared')
                wd, rd = mv_dict(w), mv_dict(r)
                dropped = [k for k in wd if k not in rd]
                ctx.count('blades_dropped_by_presimplification', len(dropped))
                bad = elem_diff(rd, wd)
                if bad:
                    ctx.violation('composite != composition of elementary operators', cid + ['own'], config=cfg, op=op,
                                  keys_in=[list(k) for k in keysets], keys_out=list(r.keys()),
                                  got=show_elem({k: rd.get(k, 0) for k in bad[:3]}),
                                  composed=show_elem({k: wd.get(k, 0) for k in bad[:3]}))

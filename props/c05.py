"""C05 - duality maps invert each other and define the regressive product."""
import random

from kvm import gen, ops, workload
from kvm.iso import Iso
from kvm.compare import elem_diff, show_elem, mv_dict

META = {
    'level': 'exploration',
    'rule': ('one case = (configuration, clause, key tuples). Clauses: hodge/unhodge/polarity/unpolarity vs reference on polynomial '
             'indeterminates; round trips undual(dual(x)) = dual(undual(x)) = x; E ^ hodge(E) == pss for every basis blade; '
             'polarity(x) == x * pss.inv(); polarity/unpolarity raise ZeroDivisionError iff the metric is degenerate (both directions); '
             'a & b vs reference and vs unhodge(hodge(a) ^ hodge(b)) built from kingdon\'s own operators; pss is the identity of &; '
             'dual()/undual() select polarity for r=0 and hodge for r=1. Distinct = distinct (config, clause, keys).'),
    'assumptions': ['kvm/refmodel.py (hodge defined by E ^ hodge(E) = pss)', 'kvm/iso.py pseudoscalar orientation from its spelled name', 'kvm/ring.py'],
}
SHARD_DEADLINE = {'quick': 300, 'thorough': 3300}


def floors(tier):
    return {'distinct_nontrivial': 3000 if tier == 'quick' else 300000, 'hodge_vs_reference': 500, 'polarity_vs_reference': 200,
            'round_trips': 1500, 'blade_wedge_hodge': 800, 'polarity_raises_degenerate': 30, 'polarity_returns_nondegenerate': 25,
            'rp_vs_reference': 500, 'rp_vs_own_composition': 500, 'pss_identity_of_rp': 500, 'dual_kind_selection': 400,
            'pss_sq_plus': 15, 'pss_sq_minus': 15, 'registered_duals_compared': 500, 'odd_oriented_pss_configs': 2}


def plan(tier, seed):
    rng = random.Random(f'C05-plan-{seed}')
    U = []
    u = workload.units_for
    if tier == 'quick':
        cfgs = gen.sig_orderings(1, 3) + gen.pqr_all(4, 4)
        cfgs += [gen.random_custom_cfg(rng, rng.choice((2, 3, 3, 4))) for _ in range(14)] + gen.NAMED
        cfgs += [{'p': 2, 'q': 1, 'r': 0, 'start_index': 0}, {'p': 1, 'q': 0, 'r': 2, 'start_index': 2}]
        cfgs += [{'signature': s} for s in ([1, 1, 1, 1], [1, -1, 1, -1], [-1, -1, -1, 1], [-1, 1], [1, 1, -1])]
        cfgs += [gen.random_custom_cfg(rng, rng.choice((2, 3, 4)), allow_null=False) for _ in range(10)]
        for c in cfgs:
            U += u(c, 'random', 1, count=90, cap=8, blades=True)
        for c in [c for c in gen.pqr_all(5, 5) if c['r'] == 0]:
            U += u(c, 'sparse', 1, count=8, cap=5, blades=True)
        for c in rng.sample(gen.pqr_all(5, 5), 4) + rng.sample(gen.pqr_all(6, 6), 2):
            U += u(c, 'sparse', 1, count=10, cap=5, blades=False)
        nshards = 16
    else:
        cfgs = gen.sig_orderings(1, 4) + gen.pqr_all(4, 4)
        cfgs += [gen.random_custom_cfg(rng, rng.choice((2, 3, 3, 4, 4, 5))) for _ in range(600)] + gen.NAMED
        for s in (0, 1, 2):
            cfgs += [{'p': 2, 'q': 1, 'r': 0, 'start_index': s}, {'p': 1, 'q': 0, 'r': 2, 'start_index': s}]
        for c in cfgs:
            U += u(c, 'random', 1, count=150, cap=8, blades=True)
        for c in gen.pqr_all(5, 6) + gen.sig_orderings(5, 5)[::9]:
            U += u(c, 'sparse', 1, count=150, cap=5, blades=(gen.cfg_dim(c) == 5))
        nshards = 64
    rng.shuffle(U)
    return [{'units': part} for part in gen.split(U, nshards)]


def run_shard(shard, ctx):
    for unit in shard['units']:
        if ctx.out_of_time():
            ctx.count('units_skipped_out_of_time')
            continue
        cfg = unit['cfg']
        name = gen.cfg_str(cfg)
        alg = gen.make_or_skip(ctx, cfg)
        if alg is None:
            continue
        iso = Iso(alg)
        ctx.count('algebras')
        if iso.pss_sign < 0:
            ctx.count('odd_oriented_pss_configs')
        config_level(ctx, alg, iso, cfg, name, unit.get('blades', True))
        for kx, ky in workload.iter_patterns(unit, alg, ctx.rng):
            if ctx.out_of_time():
                break
            pattern_level(ctx, alg, iso, cfg, name, kx, ky)


def config_level(ctx, alg, iso, cfg, name, blades):
    R = iso.ref
    r = alg.r
    degenerate = R.pss_sq() == 0
    assert degenerate == (r > 0)
    ctx.count('pss_sq_plus' if R.pss_sq() > 0 else ('pss_sq_minus' if R.pss_sq() < 0 else 'pss_sq_zero'))
    # polarity raises ZeroDivisionError exactly when the metric is degenerate
    for op in ('polarity', 'unpolarity'):
        cid = [name, op + '-exception']
        if not ctx.want(cid):
            continue
        x = ops.value_mv(alg, (alg.canon2bin[alg.bin2canon[1]],), {1: 3})
        st, out = ctx.guarded(20, ops.call_op, alg, op, x)
        if degenerate and op == 'polarity':
            # history: the same request again, through another entry point and another key pattern
            for again in (lambda: x.dual(kind='polarity'), lambda: alg.polarity(ops.value_mv(alg, (0, 1), {0: 2, 1: 5})), lambda: x.polarity()):
                st_b, out_b = ctx.guarded(20, again)
                ctx.count('polarity_raises_degenerate')
                if not (st_b == 'exc' and isinstance(out_b, ZeroDivisionError)):
                    ctx.violation('polarity did not raise ZeroDivisionError on a repeated request in a degenerate algebra', cid + ['again'], config=cfg,
                                  got=repr(out_b) if st_b == 'exc' else show_elem(mv_dict(out_b)))
        if st == 'timeout':
            continue
        ctx.case(cid)
        # the statement: "polarity(x) = x * inverse(pss) and raises ZeroDivisionError exactly when the metric is degenerate"
        if op == 'polarity':
            if degenerate:
                ctx.count('polarity_raises_degenerate')
                if not (st == 'exc' and isinstance(out, ZeroDivisionError)):
                    ctx.violation('polarity-did-not-raise-ZeroDivisionError', cid, config=cfg,
                                  got=repr(out) if st == 'exc' else show_elem(mv_dict(out)))
            else:
                ctx.count('polarity_returns_nondegenerate')
                if st == 'exc':
                    ctx.violation('polarity-raised-on-nondegenerate-metric', cid, config=cfg, got=repr(out))
        else:
            if st == 'exc':
                ctx.note_raised(out, 'unpolarity')
                if not degenerate:
                    ctx.violation('unpolarity-raised-on-nondegenerate-metric', cid, config=cfg, got=repr(out))
    # E ^ hodge(E) == pss for every basis blade
    if blades:
        cid = [name, 'E^hodge(E)']
        if ctx.want(cid):
            bad = []
            n = 0
            pss = mv_dict(alg.pss)
            for nm in alg.canon2bin:
                E = alg.blades[nm]
                st, w = ctx.guarded(10, lambda: E ^ E.hodge())
                if st != 'ok':
                    if st == 'exc':
                        ctx.note_raised(w, 'E^hodge')
                    continue
                n += 1
                if elem_diff(mv_dict(w), pss):
                    bad.append([nm, show_elem(mv_dict(w))])
            ctx.count('blade_wedge_hodge', n)
            if n:
                ctx.case(cid)
            if bad:
                ctx.violation('E ^ hodge(E) != pss', cid, config=cfg, mismatches=bad[:8], pss=show_elem(pss))


def pattern_level(ctx, alg, iso, cfg, name, kx, ky):
    R = iso.ref
    degenerate = R.pss_sq() == 0
    a = ops.generic_mv(alg, kx, 'a')
    res = {}
    for op in ('hodge', 'unhodge') + (() if degenerate else ('polarity', 'unpolarity')):
        cid = [name, op, list(kx)]
        if not ctx.want(cid):
            continue
        st, r = ops.check_generic(ctx, alg, iso, cfg, op, (kx,), cid)
        if st in ('timeout', 'raised'):
            continue
        ctx.count('hodge_vs_reference' if 'hodge' in op else 'polarity_vs_reference')
        ctx.case(cid)
        res[op] = r
        if ctx.rng.random() < 0.1:
            ops.check_special_values(ctx, alg, iso, cfg, op, (kx,), cid)
    if ctx.evaluations % 300 < 4:
        ctx.sample({'config': name, 'keys_a': list(kx), 'keys_b': list(ky), 'r': alg.r, 'pss_sign': iso.pss_sign})
    # the same object after an in-place coefficient update
    if kx and ctx.rng.random() < 0.1:
        meths = ['hodge', 'unhodge'] + ([] if degenerate else ['polarity', 'unpolarity']) + (['dual', 'undual'] if alg.r <= 1 else [])
        what = ctx.rng.choice(meths)
        cid = [name, 'inplace', what, list(kx)]
        if ctx.want(cid):
            ops.check_inplace_staleness(ctx, alg, cfg, lambda x: getattr(x, what)(), kx, cid, what + '()')
    # round trips
    for f, g in (('hodge', 'unhodge'), ('unhodge', 'hodge'), ('polarity', 'unpolarity'), ('unpolarity', 'polarity')):
        if f not in res:
            continue
        cid = [name, f'{g}({f}(x))', list(kx)]
        if not ctx.want(cid):
            continue
        st, rr = ctx.guarded(20, ops.call_op, alg, g, res[f])
        if st != 'ok':
            if st == 'exc':
                ctx.note_raised(rr, g)
            continue
        ctx.count('round_trips')
        ctx.case(cid)
        bad = elem_diff(mv_dict(rr), mv_dict(a))
        if bad:
            ctx.violation('dual-round-trip', cid, config=cfg, keys_in=[list(kx)], got=show_elem(mv_dict(rr)))
    # polarity(x) == x * pss.inv()
    if 'polarity' in res:
        cid = [name, 'polarity==x*pss.inv()', list(kx)]
        if ctx.want(cid):
            st, w = ctx.guarded(20, lambda: a * alg.pss.inv())
            if st == 'ok':
                ctx.case(cid)
                bad = elem_diff(mv_dict(w), mv_dict(res['polarity']))
                if bad:
                    ctx.violation('polarity != x * inverse(pss)', cid, config=cfg, keys_in=[list(kx)],
                                  polarity=show_elem(mv_dict(res['polarity'])), x_pssinv=show_elem(mv_dict(w)))
            elif st == 'exc':
                ctx.note_raised(w, 'pss.inv')
    # dual()/undual() kind selection
    cid = [name, 'dual-kind', list(kx)]
    if ctx.want(cid):
        for meth, pol, hod in (('dual', 'polarity', 'hodge'), ('undual', 'unpolarity', 'unhodge')):
            st, w = ctx.guarded(20, lambda: getattr(a, meth)())
            if alg.r == 0 and pol in res:
                want = res[pol]
            elif alg.r == 1 and hod in res:
                want = res[hod]
            else:
                if st == 'exc':
                    ctx.note_raised(w, meth + '-r>1')
                continue
            if st != 'ok':
                if st == 'exc':
                    ctx.violation(f'{meth}() raised although a dual is defined', cid + [meth], config=cfg, got=repr(w))
                continue
            ctx.count('dual_kind_selection')
            ctx.case(cid + [meth])
            if elem_diff(mv_dict(w), mv_dict(want)):
                ctx.violation(f'{meth}() selected the wrong duality', cid + [meth], config=cfg, r=alg.r,
                              got=show_elem(mv_dict(w)), expected=show_elem(mv_dict(want)))
            for kind, op in (('polarity', pol), ('hodge', hod)):
                if op in res:
                    st2, w2 = ctx.guarded(20, lambda: getattr(a, meth)(kind=kind))
                    if st2 == 'ok' and elem_diff(mv_dict(w2), mv_dict(res[op])):
                        ctx.violation(f'{meth}(kind={kind}) differs from {op}()', cid + [meth, kind], config=cfg)
    # the duals written inside a registered (compiled) function
    cid = [name, 'registered-duals', list(kx)]
    if ctx.want(cid) and ctx.rng.random() < 0.5:
        x = ops.value_mv(alg, kx, {k: gen.small_frac(ctx.rng, nonzero=True) for k in kx})
        for meth in ('dual', 'undual', 'hodge', 'unhodge') + (() if degenerate else ('polarity', 'unpolarity')):
            if meth in ('dual', 'undual') and alg.r > 1:
                continue
            ns = {}
            exec(f'def via_{meth}(a):\n    return a.{meth}()\n', ns)
            fn = ns[f'via_{meth}']
            st, out = ctx.guarded(20, lambda: (alg.register(fn)(x), getattr(x, meth)()))
            if st == 'ok':
                ctx.count('registered_duals_compared')
                if elem_diff(mv_dict(out[0]), mv_dict(out[1])):
                    ctx.violation(f'{meth}() inside a registered function differs from the direct call', cid + [meth], config=cfg, keys_in=[list(kx)],
                                  registered=show_elem(mv_dict(out[0])), direct=show_elem(mv_dict(out[1])))
            elif st == 'exc':
                ctx.note_raised(out, 'registered-' + meth)
        ctx.case(cid)
    # regressive product
    cid = [name, 'rp', list(kx), list(ky)]
    if ctx.want(cid):
        st, r = ops.check_generic(ctx, alg, iso, cfg, 'rp', (kx, ky), cid)
        if st not in ('timeout', 'raised'):
            ctx.count('rp_vs_reference')
            ctx.case(cid)
            if ctx.rng.random() < 0.12:
                ops.check_special_values(ctx, alg, iso, cfg, 'rp', (kx, ky), cid)
            b = ops.generic_mv(alg, ky, 'b')
            st2, w = ctx.guarded(30, lambda: (a.hodge() ^ b.hodge()).unhodge())
            if st2 == 'ok':
                ctx.count('rp_vs_own_composition')
                bad = elem_diff(mv_dict(w), mv_dict(r))
                if bad:
                    ctx.violation('a & b != unhodge(hodge(a) ^ hodge(b))', cid + ['own'], config=cfg,
                                  keys_in=[list(kx), list(ky)], rp=show_elem(mv_dict(r)), composed=show_elem(mv_dict(w)))
            elif st2 == 'exc':
                ctx.note_raised(w, 'rp-composition')
    cid = [name, 'pss-identity', list(kx)]
    if ctx.want(cid):
        st, w = ctx.guarded(20, lambda: (mv_dict(alg.pss & a), mv_dict(a & alg.pss)))
        if st == 'ok':
            ctx.count('pss_identity_of_rp')
            ctx.case(cid)
            for side, got in zip(('pss & x', 'x & pss'), w):
                if elem_diff(got, mv_dict(a)):
                    ctx.violation('pss is not the identity of the regressive product', cid + [side], config=cfg,
                                  keys_in=[list(kx)], got=show_elem(got))
        elif st == 'exc':
            ctx.note_raised(w, 'pss&x')

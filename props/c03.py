"""C03 - outer, inner, contraction, scalar, (anti)commutator products match their definitions."""
import random

from kvm import gen, ops, workload
from kvm.iso import Iso
from kvm.refmodel import Ref
from kvm.compare import elem_diff, show_elem

OPS7 = ['op', 'ip', 'lc', 'rc', 'sp', 'cp', 'acp']
META = {
    'level': 'exploration',
    'rule': ('one case = (configuration, operator in op/ip/lc/rc/sp/cp/acp, ordered key tuples of a and b): the real generated '
             'function is executed on polynomial indeterminates and compared with the grade-selected reference product '
             '(popcount definitions) resp. (ab-+ba)/2; per pattern pair the identities ip+sp == lc+rc and cp+acp == gp are also '
             'asserted on kingdon\'s own outputs. Distinct = distinct (config, op, keys_a, keys_b) that returned and were compared.'),
    'assumptions': ['kvm/refmodel.py grade-selected products (textbook popcount definitions)', 'kvm/iso.py', 'kvm/ring.py'],
}
SHARD_DEADLINE = {'quick': 300, 'thorough': 3300}


def floors(tier):
    f = {'distinct_nontrivial': 6000 if tier == 'quick' else 100000, 'identity_ip_sp_lc_rc': 800, 'identity_cp_acp_gp': 800,
         'permuted_order_cases': 500, 'swapped_pair_followups': 300, 'high_grade_blade_cases': 100, 'wrapper_configured_cases': 500, 'reflected_entry_point_cases': 100, 'graded_mode_cases': 200,
         'sibling_algebra_cases': 200}
    for o in OPS7:
        f['generic_' + o] = 800
    return f


def plan(tier, seed):
    rng = random.Random(f'C03-plan-{seed}')
    U = []
    u = workload.units_for
    d2 = gen.sig_orderings(2, 2)
    d3 = gen.sig_orderings(3, 3)
    if tier == 'quick':
        for c in gen.sig_orderings(1, 1):
            U += u(c, 'exh_ordered')
        for c in d2:
            U += u(c, 'exh_canon_sample', 1, frac=0.35)
            U += u(c, 'sparse', 1, count=20, cap=4, perm=1.0)
        for c in d3:
            U += u(c, 'random', 1, count=30, cap=8)
        for c in gen.pqr_all(4, 4)[::2] + rng.sample(gen.pqr_all(5, 5), 4):
            U += u(c, 'gradeblocks', 1, count=8, cap=10)
            U += u(c, 'sparse', 1, count=30, cap=6)
        for c in rng.sample(gen.pqr_all(6, 6), 2) + [{'signature': gen.random_sig(rng, 7)}]:
            U += u(c, 'sparse', 1, count=14, cap=5)
            U += u(c, 'highgrade', 1, count=20, cap=4)
        U += u({'p': 5, 'q': 0, 'r': 0}, 'highgrade', 1, count=20, cap=4)
        U += u({'p': 6, 'q': 0, 'r': 0}, 'highgrade', 1, count=20, cap=4)
        for _ in range(12):
            U += u(gen.random_custom_cfg(rng, rng.choice((2, 3, 3, 4))), 'random', 1, count=14, cap=6)
        for c in gen.NAMED:
            U += u(c, 'sparse', 1, count=14, cap=6)
        for s in (0, 2):
            U += u({'p': 1, 'q': 1, 'r': 1, 'start_index': s}, 'random', 1, count=14, cap=8)
        U += u(dict({'p': 2, 'q': 0, 'r': 1}, opts={'cse': False}), 'random', 1, count=20, cap=8)
        for c, w in zip(rng.sample(d2, 2) + rng.sample(d3, 3), ('wraps', 'identity', 'wraps', 'wraps', 'identity')):
            U += u(dict(c, opts={'wrapper': w}), 'sparse', 1, count=30, cap=4, perm=0.6, min_size=2)
        for c in ({'p': 2, 'q': 0, 'r': 1}, {'p': 1, 'q': 1, 'r': 1}, {'p': 3, 'q': 0, 'r': 0}, {'p': 1, 'q': 0, 'r': 2}, {'p': 3, 'q': 0, 'r': 1}):
            U += u(dict(c, opts={'graded': True}), 'gradeblocks', 1, count=14, cap=8)
        # algebras with equal (p, q, r) and different sign tables side by side in one process, on the same key patterns
        U += workload.sibling_units(gen.sibling_sets(rng, (2, 3, 4), 2), 'sparse', count=12, cap=4)
        nshards = 16
    else:
        for c in gen.sig_orderings(1, 1):
            U += u(c, 'exh_ordered')
        for c in d2:
            U += u(c, 'exh_canon', 2)
            U += u(c, 'sparse', 1, count=200, cap=4, perm=1.0)
        for c in d3:
            U += u(c, 'exh_canon_sample', 4, frac=0.03)
            U += u(c, 'random', 1, count=60, cap=8)
        for c in gen.pqr_all(4, 7):
            d = gen.cfg_dim(c)
            U += u(c, 'sparse', 1, count=40 if d <= 5 else 20, cap=6 if d <= 5 else 5)
            if d >= 5:
                U += u(c, 'highgrade', 1, count=25, cap=4)
            if d <= 5:
                U += u(c, 'gradeblocks', 1, count=10, cap=10)
        for _ in range(100):
            U += u(gen.random_custom_cfg(rng, rng.choice((2, 3, 3, 4, 4, 5))), 'random', 1, count=25, cap=6)
        for c in gen.NAMED:
            U += u(c, 'sparse', 2, count=60, cap=6)
        for s in (0, 1, 2):
            U += u({'p': 1, 'q': 1, 'r': 1, 'start_index': s}, 'random', 1, count=50, cap=8)
        for c in rng.sample(d3, 6):
            U += u(dict(c, opts={'cse': False}), 'random', 1, count=40, cap=8)
        for c, w in zip(rng.sample(d2, 5) + rng.sample(d3, 11), ('wraps', 'identity') * 8):
            U += u(dict(c, opts={'wrapper': w}), 'sparse', 1, count=120, cap=4, perm=0.6, min_size=2)
        for c in gen.pqr_all(2, 4):
            U += u(dict(c, opts={'graded': True}), 'gradeblocks', 1, count=30, cap=11)
        U += workload.sibling_units(gen.sibling_sets(rng, (2, 3, 3, 4, 5), 6), 'sparse', count=30, cap=4)
        nshards = 64
    rng.shuffle(U)
    return [{'units': part} for part in gen.split(U, nshards)]


def run_shard(shard, ctx):
    algs = {}
    for unit, cfg, name, alg, iso, (kx0, ky0) in workload.iter_cases(shard, ctx, algs, Iso):
        if True:
          # every pattern pair is followed by the opposite pair on the same algebra (a cache entry for (Ky, Kx) must not serve (Kx, Ky))
          for kx, ky in ((kx0, ky0), (ky0, kx0)) if (kx0 != ky0 and ctx.rng.random() < 0.35) else ((kx0, ky0),):
            if ctx.out_of_time():
                ctx.count('patterns_skipped_out_of_time')
                break
            if (kx, ky) != (kx0, ky0):
                ctx.count('swapped_pair_followups')
            if unit['fam'] == 'highgrade':
                ctx.count('high_grade_blade_cases')
            res = {}
            for op in OPS7 + ['gp']:
                cid = [name, op, list(kx), list(ky)]
                if not ctx.want(cid):
                    continue
                st, r = ops.check_generic(ctx, alg, iso, cfg, op, (kx, ky), cid, total=True)
                if st in ('timeout', 'raised'):
                    continue
                if op != 'gp':
                    ctx.count('generic_' + op)
                    ctx.case(cid)
                    if tuple(sorted(kx)) != tuple(kx) or tuple(sorted(ky)) != tuple(ky):
                        ctx.count('permuted_order_cases')
                res[op] = iso.to_ref(zip(r.keys(), r.values()))
                if op != 'gp' and ctx.rng.random() < 0.12:
                    ops.check_special_values(ctx, alg, iso, cfg, op, (kx, ky), cid)
                if op != 'gp' and len(kx) * len(ky) <= 16 and ctx.rng.random() < 0.02:
                    ops.check_sympy_values(ctx, alg, iso, cfg, op, (kx, ky), cid)
                if op != 'gp' and kx and ctx.rng.random() < 0.04:
                    ops.check_inplace_staleness(ctx, alg, cfg, lambda x, y, op=op: getattr(x, op)(y), kx, cid, op, other_keys=ky)
                if cfg.get('opts', {}).get('graded') and op != 'gp':
                    ctx.count('graded_mode_cases')
                if cfg.get('opts', {}).get('wrapper') and op != 'gp':
                    ctx.count('wrapper_configured_cases')
                # the two infix operators among the seven, reached through their reflected entry points
                if op in ('op', 'ip') and ctx.rng.random() < 0.08:
                    sym = {'op': '^', 'ip': '|'}[op]
                    a_, b_ = ops.generic_mv(alg, kx, 'a'), ops.generic_mv(alg, ky, 'b')
                    for label, left in (('list', [a_]), ('callable', (lambda a_=a_: a_)), ('tuple', (a_,))):
                        st3, r3 = ctx.guarded(20, lambda: eval(f'left {sym} b', {'left': left, 'b': b_}))
                        if st3 == 'ok':
                            ctx.count('reflected_entry_point_cases')
                            r3 = r3[0] if isinstance(r3, (list, tuple)) else r3
                            if elem_diff(iso.to_ref(zip(r3.keys(), r3.values())), res[op]):
                                ctx.violation(f'<{label}> {sym} b differs from a {sym} b', cid + ['reflected', label], config=cfg, op=op,
                                              keys_in=[list(kx), list(ky)])
                        elif st3 == 'exc':
                            ctx.note_raised(r3, 'reflected-' + op)
            if ctx.evaluations % 700 < 7 and res:
                ctx.sample({'config': name, 'keys_a': list(kx), 'keys_b': list(ky), 'ops': sorted(res)})
            cid = [name, 'identities', list(kx), list(ky)]
            if not ctx.want(cid):
                continue
            if all(o in res for o in ('ip', 'sp', 'lc', 'rc')):
                ctx.count('identity_ip_sp_lc_rc')
                lhs, rhs = Ref.add(res['ip'], res['sp']), Ref.add(res['lc'], res['rc'])
                bad = elem_diff(lhs, rhs)
                if bad:
                    ctx.violation('identity ip+sp != lc+rc', cid, config=cfg, keys_in=[list(kx), list(ky)],
                                  lhs=show_elem({k: lhs.get(k, 0) for k in bad[:3]}), rhs=show_elem({k: rhs.get(k, 0) for k in bad[:3]}))
            if all(o in res for o in ('cp', 'acp', 'gp')):
                ctx.count('identity_cp_acp_gp')
                lhs = Ref.add(res['cp'], res['acp'])
                bad = elem_diff(lhs, res['gp'])
                if bad:
                    ctx.violation('identity cp+acp != gp', cid, config=cfg, keys_in=[list(kx), list(ky)],
                                  lhs=show_elem({k: lhs.get(k, 0) for k in bad[:3]}), rhs=show_elem({k: res['gp'].get(k, 0) for k in bad[:3]}))

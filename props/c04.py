"""C04 - sum, difference, negation, involutions and grade selection act blade-wise."""
import itertools
import random

from kvm import gen, ops, workload
from kvm.iso import Iso
from kvm.compare import elem_diff, show_elem, mv_dict, coef_equal

META = {
    'level': 'exploration',
    'rule': ('one case = (configuration, operation, key tuples): add/sub (disjoint, overlapping, nested, empty, permuted key tuples), '
             'neg, reverse, involute, conjugate executed on polynomial indeterminates and compared blade by blade with the reference '
             '(involution signs from the closed formulas); f(f(a)) == a; ~(ab)=~b~a, conj(ab)=conj(b)conj(a), inv(ab)=inv(a)inv(b) '
             'on kingdon\'s own outputs; a.grade(G) for every subset G of grades returns exactly the stored items of those grades. '
             'Distinct = distinct (config, operation, keys[, grades]).'),
    'assumptions': ['kvm/refmodel.py', 'kvm/iso.py', 'kvm/ring.py'],
}
SHARD_DEADLINE = {'quick': 300, 'thorough': 3300}
UN = ['neg', 'reverse', 'involute', 'conjugate']


def floors(tier):
    return {'distinct_nontrivial': 5000 if tier == 'quick' else 80000, 'generic_add': 800, 'generic_sub': 800,
            'sub_only_b_blades': 300, 'involution_cases': 1500, 'twice_is_identity': 1000,
            'antiautomorphism_cases': 300, 'grade_selections': 1500, 'lazy_table_cases': 50, 'number_operand_sums': 1500,
            'grade_selections_in_registered_function': 400, 'registered_involution_forms': 1500}


def plan(tier, seed):
    rng = random.Random(f'C04-plan-{seed}')
    U = []
    u = workload.units_for
    d2 = gen.sig_orderings(2, 2)
    d3 = gen.sig_orderings(3, 3)
    if tier == 'quick':
        for c in gen.sig_orderings(1, 1):
            U += u(c, 'exh_ordered')
        for c in d2[:3]:
            U += u(c, 'exh_canon', 1)
        U += u(d2[4], 'exh_ordered', 8)[:2]
        for c in rng.sample(d3, 6):
            U += u(c, 'exh_canon_sample', 1, frac=0.004)
            U += u(c, 'random', 1, count=30, cap=8)
            U += u(c, 'special', 1, cap=8)
        for c in rng.sample(gen.pqr_all(4, 4), 4) + rng.sample(gen.pqr_all(5, 5), 3) + rng.sample(gen.pqr_all(6, 6), 2):
            U += u(c, 'random', 1, count=30, cap=12)
        for c in [{'signature': gen.random_sig(rng, 7)}, {'signature': gen.random_sig(rng, 8)}]:
            U += u(c, 'sparse', 1, count=30, cap=12, lazy=True)
            U += u(c, 'highgrade', 1, count=20, cap=5, lazy=True)
        for c in ({'p': 5, 'q': 0, 'r': 0}, {'p': 4, 'q': 1, 'r': 1}, {'p': 6, 'q': 0, 'r': 0}):
            U += u(c, 'highgrade', 1, count=25, cap=5)
        for _ in range(8):
            U += u(gen.random_custom_cfg(rng, rng.choice((2, 3, 3, 4))), 'random', 1, count=25, cap=8)
        for c in gen.NAMED:
            U += u(c, 'random', 1, count=25, cap=10)
        U += u({'p': 2, 'q': 1, 'r': 0, 'start_index': 0}, 'random', 1, count=25, cap=8)
        for c, w in zip(rng.sample(d2, 2) + rng.sample(d3, 2), ('wraps', 'identity', 'wraps', 'identity')):
            U += u(dict(c, opts={'wrapper': w}), 'sparse', 1, count=40, cap=4, perm=0.6, min_size=2)
        nshards = 16
    else:
        for c in gen.sig_orderings(1, 1):
            U += u(c, 'exh_ordered')
        for c in d2:
            U += u(c, 'exh_ordered', 2)
        for c in d3:
            U += u(c, 'exh_canon_sample', 2, frac=0.06)
            U += u(c, 'special', 1, cap=8)
        for c in gen.pqr_all(4, 6):
            U += u(c, 'random', 1, count=60, cap=12)
        for i in range(12):
            U += u({'signature': gen.random_sig(rng, 7 + i % 2)}, 'sparse', 1, count=80, cap=12, lazy=True)
        for _ in range(80):
            U += u(gen.random_custom_cfg(rng, rng.choice((2, 3, 3, 4, 4, 5))), 'random', 1, count=40, cap=8)
        for c in gen.NAMED:
            U += u(c, 'random', 2, count=80, cap=10)
        for s in (0, 1, 2):
            U += u({'p': 2, 'q': 1, 'r': 1, 'start_index': s}, 'random', 1, count=60, cap=8)
        nshards = 64
    rng.shuffle(U)
    return [{'units': part} for part in gen.split(U, nshards)]


def run_shard(shard, ctx):
    algs = {}
    for unit in shard['units']:
        cfg = unit['cfg']
        name = gen.cfg_str(cfg)
        if name not in algs:
            alg = gen.make_or_skip(ctx, cfg)
            if alg is None:
                continue
            algs[name] = (alg, Iso(alg))
            ctx.count('algebras')
        alg, iso = algs[name]
        for kx, ky in workload.iter_patterns(unit, alg, ctx.rng):
            if ctx.out_of_time():
                ctx.count('patterns_skipped_out_of_time')
                break
            one_pair(ctx, alg, iso, cfg, name, kx, ky, lazy=unit.get('lazy', False))


def one_pair(ctx, alg, iso, cfg, name, kx, ky, lazy):
    R = iso.ref
    for op in ('add', 'sub'):
        cid = [name, op, list(kx), list(ky)]
        if not ctx.want(cid):
            continue
        st, r = ops.check_generic(ctx, alg, iso, cfg, op, (kx, ky), cid, total=True)
        if st in ('timeout', 'raised'):
            continue
        ctx.count('generic_' + op)
        if ctx.rng.random() < 0.12:
            ops.check_special_values(ctx, alg, iso, cfg, op, (kx, ky), cid)
        if ctx.rng.random() < 0.06:
            ops.check_sympy_values(ctx, alg, iso, cfg, op, (kx, ky), cid)
        if op == 'sub' and set(ky) - set(kx):
            ctx.count('sub_only_b_blades')
        if lazy:
            ctx.count('lazy_table_cases')
        ctx.case(cid)
    if ctx.evaluations % 500 < 3:
        ctx.sample({'config': name, 'keys_a': list(kx), 'keys_b': list(ky)})
    # unary involutions on a
    res = {}
    for op in UN:
        cid = [name, op, list(kx)]
        if not ctx.want(cid):
            continue
        st, r = ops.check_generic(ctx, alg, iso, cfg, op, (kx,), cid, total=True)
        if st in ('timeout', 'raised'):
            continue
        ctx.count('involution_cases')
        ctx.case(cid)
        res[op] = r
        if ctx.rng.random() < 0.1:
            ops.check_special_values(ctx, alg, iso, cfg, op, (kx,), cid)
        if ctx.rng.random() < 0.04:
            ops.check_sympy_values(ctx, alg, iso, cfg, op, (kx,), cid)
        # f(f(a)) == a
        st2, rr = ctx.guarded(20, ops.call_op, alg, op, r)
        if st2 == 'ok':
            ctx.count('twice_is_identity')
            a = ops.generic_mv(alg, kx, 'a')
            bad = elem_diff(mv_dict(rr), mv_dict(a))
            if bad:
                ctx.violation('involution-applied-twice-not-identity', cid + ['twice'], config=cfg, op=op, keys_in=[list(kx)],
                              got=show_elem(mv_dict(rr)))
    # the same involutions written inside a registered (compiled) function, infix and method spellings
    cid = [name, 'registered-involutions', list(kx)]
    if ctx.want(cid) and ctx.rng.random() < 0.2 and kx:
        x_ = ops.value_mv(alg, kx, {k: gen.small_frac(ctx.rng, nonzero=True) for k in kx})
        X_ = iso.mv_to_ref(x_)
        forms = {'~x': ('~x', R.reverse(X_)), 'x.reverse()': ('x.reverse()', R.reverse(X_)), '-x': ('-x', R.neg(X_)),
                 'x.involute()': ('x.involute()', R.involute(X_)), 'x.conjugate()': ('x.conjugate()', R.conjugate(X_)),
                 '~(~x)': ('~(~x)', dict(X_))}
        for label, (src, want_) in forms.items():
            ns = {}
            exec('def inv_' + str(abs(hash(label)) % 10 ** 6) + '(x):\n    return ' + src + '\n', ns)
            fn = [v for k_, v in ns.items() if k_.startswith('inv_')][0]
            st, r_ = ctx.guarded(20, lambda: alg.register(fn)(x_))
            if st == 'ok':
                ctx.count('registered_involution_forms')
                if elem_diff(iso.mv_to_ref(r_), want_):
                    ctx.violation('involution written inside a registered function is not blade-wise', cid + [label], config=cfg, form=label,
                                  keys_in=[list(kx)], got=show_elem(iso.mv_to_ref(r_)), expected=show_elem(want_))
            elif st == 'exc':
                ctx.note_raised(r_, 'registered-involution')
        ctx.case(cid)
    # (anti)automorphisms of the geometric product, on kingdon's own outputs
    cid = [name, 'automorphism', list(kx), list(ky)]
    if ctx.want(cid) and len(kx) * len(ky) <= 64 and ctx.rng.random() < 0.5:
        a, b = ops.generic_mv(alg, kx, 'a'), ops.generic_mv(alg, ky, 'b')

        def laws():
            out = []
            ab = a * b
            out.append(('reverse', mv_dict(~ab), mv_dict((~b) * (~a))))
            out.append(('conjugate', mv_dict(ab.conjugate()), mv_dict(b.conjugate() * a.conjugate())))
            out.append(('involute', mv_dict(ab.involute()), mv_dict(a.involute() * b.involute())))
            return out
        st, out = ctx.guarded(30, laws)
        if st == 'ok':
            ctx.count('antiautomorphism_cases')
            ctx.case(cid)
            for nm, lhs, rhs in out:
                bad = elem_diff(lhs, rhs)
                if bad:
                    ctx.violation(f'{nm} is not an (anti)automorphism of gp', cid + [nm], config=cfg,
                                  keys_in=[list(kx), list(ky)], lhs=show_elem({k: lhs.get(k, 0) for k in bad[:3]}),
                                  rhs=show_elem({k: rhs.get(k, 0) for k in bad[:3]}))
        elif st == 'exc':
            ctx.note_raised(out, 'automorphism')
    # plain numbers (in particular the identities 0 and 1) on either side of + and -
    cid = [name, 'number-add-sub', list(kx)]
    if ctx.want(cid) and ctx.rng.random() < 0.35:
        a_ = ops.generic_mv(alg, kx, 'a')
        A_ = iso.mv_to_ref(a_)
        n_ = ctx.rng.choice((0, 0.0, 1, 2, -3))
        N_ = {0: n_}
        forms = {'n - a': (lambda: n_ - a_, R.sub(N_, A_)), 'a - n': (lambda: a_ - n_, R.sub(A_, N_)),
                 'n + a': (lambda: n_ + a_, R.add(N_, A_)), 'a + n': (lambda: a_ + n_, R.add(A_, N_)),
                 'alg.sub(n, a)': (lambda: alg.sub(n_, a_), R.sub(N_, A_))}
        for label, (f_, want_) in forms.items():
            st, r_ = ctx.guarded(20, f_)
            if st != 'ok':
                if st == 'exc':
                    ctx.note_raised(r_, 'number-add-sub')
                continue
            ctx.count('number_operand_sums')
            if elem_diff(iso.mv_to_ref(r_), want_):
                ctx.violation('sum/difference with a plain number is not blade-wise', cid + [label, str(n_)], config=cfg, form=label, number=str(n_),
                              keys_in=[list(kx)], got=show_elem(iso.mv_to_ref(r_)), expected=show_elem(want_))
        ctx.case(cid + [str(n_)])
    # the same object after an in-place coefficient update
    if kx and ctx.rng.random() < 0.08:
        what = ctx.rng.choice(UN + ['grade', 'sub', 'add'])
        cid = [name, 'inplace', what, list(kx)]
        if ctx.want(cid):
            if what == 'grade':
                G = tuple(sorted({gen.grade_of(iso.keymask(k)) for k in ctx.rng.sample(list(kx), ctx.rng.randint(1, len(kx)))}))
                ops.check_inplace_staleness(ctx, alg, cfg, lambda x: x.grade(*G), kx, cid, f'grade{G}')
            elif what in ('sub', 'add'):
                ops.check_inplace_staleness(ctx, alg, cfg, (lambda x, y: x - y) if what == 'sub' else (lambda x, y: x + y), kx, cid, what, other_keys=ky)
            else:
                ops.check_inplace_staleness(ctx, alg, cfg, lambda x: getattr(x, what)(), kx, cid, what + '()')
    # grade selection
    d = alg.d
    a = ops.generic_mv(alg, kx, 'a')
    allg = list(range(d + 1))
    if d <= 4 and ctx.rng.random() < 0.25:
        gsets = [g for r in range(d + 2) for g in itertools.combinations(allg, r)]
    else:
        gsets = [tuple(sorted(ctx.rng.sample(allg, ctx.rng.randint(0, d + 1)))) for _ in range(3)]
    # the same subsets written in another order, or naming a grade twice
    extra = []
    for G in gsets[:3]:
        if len(G) >= 2 and ctx.rng.random() < 0.5:
            H = list(G)
            while H == sorted(H):
                ctx.rng.shuffle(H)
            extra.append(tuple(H))
        elif len(G) >= 1 and ctx.rng.random() < 0.3:
            extra.append(tuple(G) + (G[0],))
    for G in gsets + extra:
        cid = [name, 'grade', list(kx), list(G)]
        if not ctx.want(cid):
            continue
        form = ctx.rng.choice(('args', 'tuple'))
        st, r = ctx.guarded(10, (lambda: a.grade(*G)) if form == 'args' else (lambda: a.grade(G)))
        if tuple(G) != tuple(sorted(set(G))):
            ctx.count('grade_selections_unsorted_or_repeated')
        if st != 'ok':
            if st == 'exc':
                ctx.note_raised(r, 'grade')
                Gs = tuple(sorted(set(G)))
                if Gs != tuple(G):
                    st_s, r_s = ctx.guarded(10, lambda: a.grade(*Gs))
                    if st_s == 'ok':
                        ctx.case(cid)
                        ctx.violation('grade selection raises for a set of grades that it accepts in sorted order', cid + ['raises'], config=cfg,
                                      grades=list(G), sorted_grades=list(Gs), form=form, error=f'{type(r).__name__}: {str(r)[:120]}')
            continue
        ctx.count('grade_selections')
        ctx.case(cid)
        want = {k: v for k, v in zip(kx, a.values()) if gen.grade_of(iso.keymask(k)) in G}
        got_items = list(zip(r.keys(), r.values()))
        ok = (len(got_items) == len(want) and len(set(r.keys())) == len(got_items)
              and all(k in want and coef_equal(v, want[k]) for k, v in got_items))
        if not ok:
            ctx.violation('grade-selection', cid, config=cfg, keys_in=[list(kx)], grades=list(G), form=form,
                          got=show_elem(dict(got_items)), expected=show_elem(want))
        # the same selection written inside a registered (compiled) function
        if G and ctx.rng.random() < 0.15:
            ns = {}
            exec(f'def sel_{"_".join(map(str, G))}(x):\n    return x.grade({", ".join(map(str, G))}{"," if len(G) == 1 else ""})\n', ns)
            fn = [v for k_, v in ns.items() if k_.startswith('sel_')][0]
            st2, r2 = ctx.guarded(20, lambda: alg.register(fn)(a))
            if st2 == 'ok':
                ctx.count('grade_selections_in_registered_function')
                got2 = dict(zip(r2.keys(), r2.values()))
                if len(r2.keys()) != len(r2.values()) or elem_diff(got2, want):
                    ctx.violation('grade selection inside a registered function', cid + ['registered'], config=cfg, keys_in=[list(kx)], grades=list(G),
                                  got=show_elem(got2), expected=show_elem(want), n_keys=len(r2.keys()), n_values=len(r2.values()))
            elif st2 == 'exc':
                ctx.note_raised(r2, 'grade-registered')

"""C09 - results depend only on the operands, never on earlier operations (history / schedule property)."""
import copy
import random
import threading
from fractions import Fraction as Fr

from kvm import gen, ops, monitors
from kvm.compare import elem_diff, show_elem, mv_dict

META = {
    'level': 'exploration',
    'rule': ('one case = one step of a seeded history executed on a shared Algebra (sequential histories, and T in {2,4,8} threads with seeded '
             'yield injection at LINE events of kingdon frames): operator calls (method or infix) over a small alphabet of operators and key '
             'sets so that the same key set recurs in different orders/paddings, registered functions (numeric, symbolic, nested, pairs sharing '
             'a __name__), calls of symbolic multivectors, raising calls. Oracle: the same call on a freshly constructed Algebra with the same '
             'options gives the same element / exception type; no operand or earlier result changes (snapshots compared at quiescent points). '
             'Distinct = distinct (configuration, step description); non-trivial = the step was compared with the fresh-algebra oracle. '
             'Interleavings are sampled, not enumerated: evidence lists distinct orderings of cache-miss events observed.'),
    'assumptions': ['the fresh-algebra execution is the specification (literal reading of the statement)',
                    'CPython 3.12 GIL: races at bytecode granularity, provoked by switch interval 1e-6 and sleep(0) at kingdon LINE events'],
}
SHARD_DEADLINE = {'quick': 400, 'thorough': 3300}
STEP_TIMEOUT = 30
BIN = ops.BINARY
UN = [o for o in ops.UNARY if o != 'sqrt']
INFIX = {'gp': '*', 'ip': '|', 'op': '^', 'rp': '&', 'sw': '>>', 'proj': '@', 'add': '+', 'sub': '-', 'div': '/'}
INFIX_UN = {'neg': lambda x: -x, 'reverse': lambda x: ~x}
REGS = ['r1', 'r2', 's2', 's3', 'nest2', 'nest3', 'pg', 'po', 'sq']


def floors(tier):
    return {'distinct_nontrivial': 1200 if tier == 'quick' else 25000, 'steps_compared_with_fresh_algebra': 2500,
            'histories': 60, 'threaded_runs': 12, 'threaded_steps': 600, 'yields_injected': 2000,
            'permuted_key_order_steps': 400, 'registered_function_steps': 400, 'same_name_registered_steps': 100,
            'symbolic_call_steps': 60, 'raising_steps': 60, 'wrapper_steps': 500, 'snapshots_verified': 4000,
            'cache_hits': 600, 'cache_misses': 600, 'distinct_miss_orderings': 10, 'race_rounds': 300}


def plan(tier, seed):
    rng = random.Random(f'C09-plan-{seed}')
    base = [{'p': 2, 'q': 0, 'r': 0}, {'p': 2, 'q': 0, 'r': 1}, {'p': 1, 'q': 1, 'r': 0}, {'p': 3, 'q': 0, 'r': 0},
            {'signature': [0, 1, -1]}, {'p': 1, 'q': 0, 'r': 1}, {'p': 3, 'q': 0, 'r': 1}, {'named': '2DPGA'}, {'p': 6, 'q': 0, 'r': 0},
            {'p': 4, 'q': 1, 'r': 1}, {'p': 5, 'q': 1, 'r': 1}, {'signature': [1, -1, 1, 0, 1, 1, -1]}]
    wrappers = [None, None, 'identity', 'wraps']
    H = []
    nseq, nthr, steps = (64, 24, 40) if tier == 'quick' else (6000, 1200, 50)
    for i in range(nseq):
        cfg = dict(rng.choice(base))
        opts = {}
        w = wrappers[i % 4]
        if w:
            opts['wrapper'] = w
        if rng.random() < 0.2:
            opts['cse'] = False
        if rng.random() < 0.12 and not cfg.get('named'):
            opts['graded'] = True
        if opts:
            cfg['opts'] = opts
        H.append({'mode': 'seq', 'cfg': cfg, 'hseed': rng.randrange(10 ** 9), 'steps': steps})
    for i in range(nthr):
        cfg = dict(rng.choice(base[:6]))
        w = wrappers[i % 4]
        if w:
            cfg['opts'] = {'wrapper': w}
        H.append({'mode': 'threads', 'cfg': cfg, 'hseed': rng.randrange(10 ** 9), 'steps': 25,
                  'threads': (2, 4, 8)[i % 3], 'p_yield': rng.choice((0.02, 0.05, 0.15))})
    # cold-start races: several threads use the same operator for the first time on a fresh algebra, with operands holding the
    # same blades in different key orders (the situation in which generated names collide), many short rounds
    for i in range(16 if tier == 'quick' else 1024):
        cfg = dict(rng.choice(base[:6]))
        w = ('wraps', 'identity', 'wraps', None)[i % 4]
        if w:
            cfg['opts'] = {'wrapper': w}
        H.append({'mode': 'race', 'cfg': cfg, 'hseed': rng.randrange(10 ** 9), 'rounds': 40 if tier == 'quick' else 60,
                  'threads': (2, 3, 4)[i % 3], 'p_yield': rng.choice((0.1, 0.3, 0.5))})
    rng.shuffle(H)
    return [{'histories': part} for part in gen.split(H, 16 if tier == 'quick' else 64)]


# ---------------------------------------------------------------------------------
# registered functions

def regfuncs(alg):
    @alg.register
    def r1(a, b):
        return (a * b).grade(1) + a

    @alg.register(symbolic=True)
    def r2(a, b):
        return (a ^ b) - b

    def mk(k):
        @alg.register
        def same(a):
            return k * a + a * a
        return same
    s2, s3 = mk(2), mk(3)

    @alg.register
    def nest2(a):
        return s2(a) + 1

    @alg.register
    def nest3(a):
        return s3(a) + 1

    def mk2(which):
        if which == 'gp':
            @alg.register
            def same2(a, b):
                return a * b
        else:
            @alg.register
            def same2(a, b):
                return (a ^ b) + b
        return same2
    pg, po = mk2('gp'), mk2('op')

    @alg.register
    def sq(a, b):
        return a * b + (b * a).reverse()
    return {'r1': (r1, 2), 'r2': (r2, 2), 's2': (s2, 1), 's3': (s3, 1), 'nest2': (nest2, 1), 'nest3': (nest3, 1),
            'pg': (pg, 2), 'po': (po, 2), 'sq': (sq, 2)}


# ---------------------------------------------------------------------------------
# histories

def fr(v):
    return Fr(v)


def make_history(rng, alg, cfg, nsteps, transient_failures=False):
    canon = list(alg.canon2bin.values())
    graded = cfg.get('opts', {}).get('graded', False)
    if graded:
        pool = []
        gs = list(range(alg.d + 1))
        while len(pool) < 3:
            g = tuple(sorted(rng.sample(gs, rng.randint(1, 2))))
            pool.append(alg.indices_for_grades[g])
    else:
        pool = [gen.random_subset(rng, canon, 3 if alg.d <= 4 else 2, 1) for _ in range(3)]
        if alg.d >= 5 or rng.random() < 0.2:
            pool[0] = (0,)          # a scalar-only operand (inverse of a scalar takes its own path in the d >= 6 scheme)
    opsel = rng.sample(BIN + UN, 4)
    if alg.d >= 7:
        # lazily filled sign table: cheap elementary products of small operands, requested in both operand orders over the history
        opsel = rng.sample([o for o in ('gp', 'op', 'ip', 'cp', 'acp', 'lc', 'rc', 'sp', 'add', 'sub', 'reverse', 'involute', 'conjugate') if o in BIN + UN], 4)
    if rng.random() < 0.6 and 'gp' not in opsel:
        opsel[0] = 'gp'
    regsel = rng.sample(REGS, 4) if not graded else []
    if alg.d >= 7:
        regsel = regsel[:1]
    steps = []

    def keyset():
        ks = rng.choice(pool)
        if graded:
            return ks
        r = rng.random()
        if r < 0.4:
            ks = gen.permuted(rng, ks)
        elif r < 0.5:
            ks, _ = gen.padded(rng, ks, canon, 1)
        return ks

    def vals(ks, nonzero=True):
        return [str(Fr(gen.small_int(rng, -3, 3, nonzero=nonzero), rng.choice((1, 1, 2)))) for _ in ks]
    for _ in range(nsteps):
        weights = [6, 3 if regsel else 0, 0.7, 0.7]
        kind = rng.choices(['op', 'reg', 'symcall', 'raise'], weights)[0]
        kx, ky = keyset(), keyset()
        if kind == 'op':
            op = rng.choice(opsel)
            via = 'infix' if (op in INFIX or op in INFIX_UN) and rng.random() < 0.4 else 'method'
            st = {'kind': 'op', 'op': op, 'via': via, 'keys': [list(kx), list(ky)], 'vals': [vals(kx), vals(ky)]}
        elif kind == 'reg':
            st = {'kind': 'reg', 'fn': rng.choice(regsel), 'keys': [list(kx), list(ky)], 'vals': [vals(kx), vals(ky)]}
        elif kind == 'symcall':
            op = rng.choice([o for o in opsel if o not in ('inv', 'div', 'outertan', 'polarity', 'unpolarity')] or ['gp'])
            st = {'kind': 'symcall', 'op': op, 'keys': [list(kx), list(ky)], 'vals': [vals(kx), vals(ky)]}
        else:
            what = rng.choice(['mixed', 'zero_det', 'zero_div_codegen'] + (['graded_keys'] if graded else []))
            st = {'kind': 'raise', 'what': what, 'keys': [list(kx), list(ky)], 'vals': [vals(kx), vals(ky)]}
        steps.append(st)
        if transient_failures and not graded and alg.d <= 4 and rng.random() < 0.08:
            # a first use that fails for a reason that has nothing to do with the operands (warnings turned into errors while the
            # function is being generated), then the very same call under normal conditions: it must behave as on a fresh algebra
            mixed = tuple(sorted({0, rng.choice(canon[1:])} | {rng.choice(canon[1:])})) if len(canon) > 2 else tuple(canon)
            wst = {'kind': 'op', 'op': 'outerexp', 'via': 'method', 'keys': [list(mixed), list(mixed)], 'vals': [vals(mixed), vals(mixed)]}
            steps.append(dict(wst, warn_as_error=True))
            steps.append(wst)
        if kind == 'symcall' and rng.random() < 0.6:
            # a sibling call whose symbolic result differs from the previous one only by -1 versus -2 in its coefficients
            # (distinct expressions that are easy to confuse when results are memoised by a digest of the expression)
            op2 = rng.choice(['add', 'sub', 'gp'])
            first = dict(st, op=op2, vals=[st['vals'][0], ['-1' for _ in ky]])
            second = dict(st, op=op2, vals=[st['vals'][0], ['-2' for _ in ky]])
            steps.append(first)
            steps.append(second)
            steps.append(first)
    return steps


def execute(alg, regs, step, snaps=None):
    """Run one step on `alg`.  Returns ('ok', {key: value}) or ('exc', type name)."""
    import sympy
    from kingdon import Algebra
    kx, ky = (tuple(k) for k in step['keys'])
    vx, vy = ([Fr(v) for v in vs] for vs in step['vals'])
    x, y = gen.mv_from(alg, kx, list(vx)), gen.mv_from(alg, ky, list(vy))
    if snaps is not None:
        snaps.append((x, list(vx)))
        snaps.append((y, list(vy)))
    import warnings
    wcm = warnings.catch_warnings()
    wcm.__enter__()
    if step.get('warn_as_error'):
        warnings.simplefilter('error')
    try:
        kind = step['kind']
        if kind == 'op':
            op = step['op']
            if step['via'] == 'infix' and op in INFIX:
                r = eval(f'x {INFIX[op]} y', {'x': x, 'y': y})
            elif step['via'] == 'infix' and op in INFIX_UN:
                r = INFIX_UN[op](x)
            else:
                r = getattr(alg, op)(x, y) if op in BIN else getattr(alg, op)(x)
        elif kind == 'reg':
            f, n = regs[step['fn']]
            r = f(x, y) if n == 2 else f(x)
        elif kind == 'symcall':
            op = step['op']
            syms = [sympy.Symbol(f's{k}') for k in kx]
            s = gen.mv_from(alg, kx, syms)
            # on the shared algebra a symbolic result that was already produced by an identical step is kept and CALLED AGAIN (the same
            # object, whatever other symbolic multivectors with the same blades were called in between)
            store = getattr(alg, '_kvm_symresults', None)
            skey = repr(sorted((k_, v_) for k_, v_ in step.items()))
            if store is not None and skey in store:
                t = store[skey]
            else:
                t = getattr(alg, op)(s, y) if op in BIN else getattr(alg, op)(s)
                if store is not None:
                    store[skey] = t
            if t.free_symbols:
                r = t(**{f's{k}': v for k, v in zip(kx, vx) if sympy.Symbol(f's{k}') in t.free_symbols})
            else:
                r = t
        elif kind == 'raise':
            what = step['what']
            if what == 'mixed':
                other = Algebra(alg.p + 1, alg.q, alg.r)
                r = x * other.blades[other.bin2canon[1]]
            elif what == 'zero_det':
                # 1 + e_i with e_i^2 = +1 (or a null vector when there is no positive generator) has no inverse
                plus = [k for k in (1, 2, 4, 8) if k < len(alg) and alg.signs[k, k] == 1]
                null = [k for k in (1, 2, 4, 8) if k < len(alg) and alg.signs[k, k] == 0]
                z = gen.mv_from(alg, (0, plus[0]), [Fr(1), Fr(1)]) if plus else gen.mv_from(alg, (null[0] if null else 1,), [Fr(1)])
                r = z.inv() if len(kx) % 2 else x / z
            elif what == 'zero_div_codegen':
                null = [k for k in (1, 2, 4, 8) if k < len(alg) and alg.signs[k, k] == 0]
                z = gen.mv_from(alg, (null[0],), [Fr(2)]) if null else gen.mv_from(alg, (), [])
                r = x / z
            elif what == 'graded_keys':
                r = alg.multivector(keys=(1,), values=[1]) if alg.d > 1 else alg.multivector(keys=(0, 1), values=[1])
        if isinstance(r, (list, tuple)):
            return ('ok', {i: v for i, v in enumerate(r)}, r)
        if not hasattr(r, 'keys'):
            return ('ok', {0: r}, r)
        return ('ok', mv_dict(r), r)
    except Exception as e:
        return ('exc', type(e).__name__, None)
    finally:
        wcm.__exit__(None, None, None)


def step_key(cfgname, step):
    return repr((cfgname, sorted(step.items())))


class Oracle:
    """Fresh-algebra oracle, memoised per distinct call."""

    def __init__(self, cfg):
        self.cfg = cfg
        self.memo = {}

    def expect(self, step):
        k = step_key('', step)
        if k not in self.memo:
            fresh = gen.make_algebra(self.cfg)
            out = execute(fresh, regfuncs(fresh), step)
            self.memo[k] = out[:2]
        return self.memo[k]


def same(a, b):
    if a[0] != b[0]:
        return False
    if a[0] == 'exc':
        return a[1] == b[1]
    return not elem_diff(a[1], b[1])


def describe(step):
    s = {k: v for k, v in step.items() if k != 'vals'}
    return s


def instrument(alg):
    alg.numspace = monitors.RecordingNamespace(alg.numspace)
    # the algebra's own shared multivectors (basis blades, pseudoscalar) are 'previously returned multivectors' too
    alg._kvm_shared = [(m, list(m.values())) for m in list(alg.blades.blades.values())[:64]] + [(alg.pss, list(alg.pss.values()))]
    alg._kvm_symresults = {}
    return alg


def stale_binding_info(alg, regs, step):
    """Diagnosis for the witness (recorded, not judged): names that were rebound to a different function."""
    ns = alg.numspace
    return {'numspace_rebinds': sorted(set(getattr(ns, 'rebinds', [])))[:8]}


def run_shard(shard, ctx):
    ge = monitors.GenEvents().install()
    try:
        for h in shard['histories']:
            if ctx.out_of_time():
                ctx.count('histories_skipped_out_of_time')
                continue
            if h['mode'] == 'seq':
                run_sequential(h, ctx, ge)
            elif h['mode'] == 'race':
                run_race(h, ctx, ge)
            else:
                run_threaded(h, ctx, ge)
    finally:
        ge.uninstall()


def check_snaps(ctx, snaps, cfg, hid, where):
    bad = 0
    for mv, snap in snaps:
        ctx.count('snapshots_verified')
        cur = list(mv.values())
        if len(cur) != len(snap) or any(not (a == b) for a, b in zip(cur, snap)):
            bad += 1
            if bad <= 2:
                ctx.violation('an operand or earlier result was mutated', hid + [where], config=cfg,
                              mechanism='mutation', keys=list(mv.keys()), now=[str(v) for v in cur], snapshot=[str(v) for v in snap])
    return bad


def run_sequential(h, ctx, ge):
    cfg = h['cfg']
    name = gen.cfg_str(cfg)
    rng = random.Random(h['hseed'])
    alg = gen.make_or_skip(ctx, cfg)
    if alg is None:
        return
    alg = instrument(alg)
    regs = regfuncs(alg)
    steps = make_history(rng, alg, cfg, h['steps'], transient_failures=True)
    oracle = Oracle(cfg)
    hid = [name, h['hseed']]
    if not ctx.want(hid) and ctx.only_case is not None and ctx.only_case[:2] != hid:
        return
    ctx.count('histories')
    snaps = []
    for i, step in enumerate(steps):
        before = ge.snapshot()
        st, out = ctx.guarded(STEP_TIMEOUT, execute, alg, regs, step, snaps)
        if st != 'ok':
            ctx.count('step_timeouts_or_harness_errors')
            if st == 'exc':
                ctx.note_raised(out, 'harness')
            continue
        got = out[:2]
        if step.get('warn_as_error'):
            # the warning is emitted while the function is generated, so whether THIS call raises legitimately depends on whether the
            # pattern was used before; the step exists for what it may leave behind, and is not compared
            ctx.count('transient_failure_steps_' + ('raised' if out[0] == 'exc' else 'returned'))
            continue
        if out[0] == 'ok' and out[2] is not None and hasattr(out[2], 'values') and isinstance(out[2].values(), list):
            snaps.append((out[2], list(out[2].values())))
        dl = ge.delta(before)
        ctx.count('cache_misses' if (dl['do_codegen'] or dl['do_compile']) else 'cache_hits')
        st2, exp = ctx.guarded(STEP_TIMEOUT * 2, oracle.expect, step)
        if st2 != 'ok':
            ctx.count('oracle_timeouts')
            continue
        tally(ctx, cfg, step, got)
        ctx.count('steps_compared_with_fresh_algebra')
        ctx.case([name, step_key('', step)])
        if not same(got, exp):
            report(ctx, cfg, hid + [i], alg, regs, steps, i, got, exp, mode='sequential')
        if (i + 1) % 25 == 0:
            check_snaps(ctx, snaps, cfg, hid, f'step{i}')
    check_snaps(ctx, snaps, cfg, hid, 'end')
    check_snaps(ctx, alg._kvm_shared, cfg, hid, 'shared-blades')
    ctx.count('numspace_rebind_events_recorded_not_judged', len(alg.numspace.rebinds))
    if ctx.counters.get('histories', 0) % 8 == 1:
        ctx.sample({'config': name, 'history_seed': h['hseed'], 'first_steps': [describe(s) for s in steps[:4]]})


def tally(ctx, cfg, step, got):
    ks = step['keys']
    if any(list(k) != sorted(k) for k in ks):
        ctx.count('permuted_key_order_steps')
    if step['kind'] == 'reg':
        ctx.count('registered_function_steps')
        if step['fn'] in ('s2', 's3', 'nest2', 'nest3', 'pg', 'po'):
            ctx.count('same_name_registered_steps')
    if step['kind'] == 'symcall':
        ctx.count('symbolic_call_steps')
    if step['kind'] == 'raise':
        ctx.count('raising_steps')
    if got[0] == 'exc':
        ctx.count('steps_that_raised')
    if cfg.get('opts', {}).get('wrapper'):
        ctx.count('wrapper_steps')


def report(ctx, cfg, cid, alg, regs, steps, i, got, exp, mode, extra=None):
    step = steps[i]
    prior = [describe(s) for s in steps[max(0, i - 6):i]]
    ctx.violation('result differs from a fresh algebra', cid, config=cfg, mode=mode, step=step,
                  got=got[1] if got[0] == 'exc' else show_elem(got[1]),
                  fresh=exp[1] if exp[0] == 'exc' else show_elem(exp[1]),
                  preceding_steps=prior, **stale_binding_info(alg, regs, step), **(extra or {}))


def run_threaded(h, ctx, ge):
    cfg = h['cfg']
    name = gen.cfg_str(cfg)
    T = h['threads']
    alg = gen.make_or_skip(ctx, cfg)
    if alg is None:
        return
    alg = instrument(alg)
    regs = regfuncs(alg)
    hid = [name, h['hseed'], f'T{T}']
    if ctx.only_case is not None and ctx.only_case[:3] != hid:
        return
    # independent seeded histories, two of them identical so that both race for the same cache entries
    histories = []
    for t in range(T):
        seed_t = h['hseed'] + (t if t != 1 else 0)
        histories.append(make_history(random.Random(seed_t), alg, cfg, h['steps']))
    log = []
    lock = threading.Lock()
    snaps = []
    errors = []

    def worker(t):
        try:
            for i, step in enumerate(histories[t]):
                local_snaps = []
                out = execute(alg, regs, step, local_snaps)
                with lock:
                    log.append((t, i, out[:2]))
                    snaps.extend(local_snaps)
                    if out[0] == 'ok' and out[2] is not None and hasattr(out[2], 'values') and isinstance(out[2].values(), list):
                        snaps.append((out[2], list(out[2].values())))
        except BaseException as e:      # harness failure inside a thread
            errors.append(repr(e))
    ge_log_start = len(ge.log)
    threads = [threading.Thread(target=worker, args=(t,), name=f'h{t}') for t in range(T)]
    deadline = STEP_TIMEOUT * 6
    with monitors.YieldInjector(h['hseed'], h['p_yield']) as yi:
        for th in threads:
            th.start()
        for th in threads:
            th.join(deadline)
    if any(th.is_alive() for th in threads):
        ctx.count('threaded_runs_watchdog_inconclusive')
        ctx.timeouts += 1
        return
    if errors:
        ctx.count('threaded_harness_errors')
        ctx.notes.append(errors[0])
        return
    ctx.count('threaded_runs')
    ctx.count('yields_injected', yi.yields)
    ctx.count('line_events', yi.lines)
    misses = [(e[0], e[1], e[2]) for e in ge.log[ge_log_start:] if e[1] in ('do_codegen', 'do_compile')]
    ordering = tuple(e[0] for e in misses)
    ctx.distinct('orderings_of_cache_miss_events_across_threads', (cfg, ordering))
    ctx.distinct('interleaving_prefixes_of_8_miss_events', ordering[:8])
    ctx.count('distinct_miss_orderings')       # one per run (floor); the distinct count is reported under distinct_observations
    ctx.count('cache_misses', len(misses))
    dup = len(misses) - len({(e[2]) for e in misses})
    ctx.count('racing_double_generation_events_recorded_not_judged', max(0, dup))
    oracle = Oracle(cfg)
    for t, i, got in log:
        step = histories[t][i]
        st2, exp = ctx.guarded(STEP_TIMEOUT * 2, oracle.expect, step)
        if st2 != 'ok':
            ctx.count('oracle_timeouts')
            continue
        tally(ctx, cfg, step, got)
        ctx.count('steps_compared_with_fresh_algebra')
        ctx.count('threaded_steps')
        ctx.case([name, step_key('', step)])
        if not same(got, exp):
            report(ctx, cfg, hid + [t, i], alg, regs, histories[t], i, got, exp, mode=f'{T} threads',
                   extra={'miss_ordering_head': list(ordering[:20])})
    check_snaps(ctx, snaps, cfg, hid, 'joined')
    ctx.count('numspace_rebind_events_recorded_not_judged', len(alg.numspace.rebinds))
    if ctx.counters.get('threaded_runs', 0) % 4 == 1:
        ctx.sample({'config': name, 'threads': T, 'p_yield': h['p_yield'], 'line_events': yi.lines, 'yields': yi.yields,
                    'miss_ordering_head': list(ordering[:12])})


def run_race(h, ctx, ge):
    cfg = h['cfg']
    name = gen.cfg_str(cfg)
    T = h['threads']
    rng = random.Random(h['hseed'])
    hid = [name, h['hseed'], f'race-T{T}']
    if ctx.only_case is not None and ctx.only_case[:3] != hid:
        return
    oracle = Oracle(cfg)
    for rnd in range(h['rounds']):
        if ctx.out_of_time():
            return
        alg = gen.make_or_skip(ctx, cfg)
        if alg is None:
            continue
        alg = instrument(alg)
        regs = regfuncs(alg)
        canon = list(alg.canon2bin.values())
        ks = gen.random_subset(rng, canon, 3, 2)
        op = rng.choice(['gp', 'gp', 'op', 'ip', 'add', 'sub', 'sw', 'cp', 'reverse', 'sq', 'pg'])
        steps = []
        for t in range(T):
            kx, ky = gen.permuted(rng, ks), gen.permuted(rng, ks)
            vals = lambda k: [str(Fr(gen.small_int(rng, -3, 3, nonzero=True))) for _ in k]
            if op in ('sq', 'pg'):
                st = {'kind': 'reg', 'fn': op, 'keys': [list(kx), list(ky)], 'vals': [vals(kx), vals(ky)]}
            else:
                st = {'kind': 'op', 'op': op, 'via': 'method', 'keys': [list(kx), list(ky)], 'vals': [vals(kx), vals(ky)]}
            steps.append(st)
        results = [[] for _ in range(T)]
        barrier = threading.Barrier(T)
        errors = []

        def worker(t):
            try:
                barrier.wait(timeout=20)
                for rep in range(2):
                    results[t].append(execute(alg, regs, steps[t])[:2])
            except BaseException as e:
                errors.append(repr(e))
        threads = [threading.Thread(target=worker, args=(t,), name=f'r{t}') for t in range(T)]
        with monitors.YieldInjector(h['hseed'] + rnd, h['p_yield']) as yi:
            for th in threads:
                th.start()
            for th in threads:
                th.join(STEP_TIMEOUT * 2)
        if any(th.is_alive() for th in threads) or errors:
            ctx.count('race_rounds_inconclusive')
            continue
        ctx.count('race_rounds')
        ctx.distinct('race_round_key_order_combinations', [s_['keys'] for s_ in steps])
        ctx.distinct('race_round_outcomes', [r_ for r_ in results])
        ctx.count('yields_injected', yi.yields)
        ctx.count('line_events', yi.lines)
        for t in range(T):
            st2, exp = ctx.guarded(STEP_TIMEOUT * 2, oracle.expect, steps[t])
            if st2 != 'ok':
                continue
            for rep, got in enumerate(results[t]):
                tally(ctx, cfg, steps[t], got)
                ctx.count('steps_compared_with_fresh_algebra')
                ctx.count('threaded_steps')
                ctx.case([name, 'race', step_key('', steps[t])])
                if not same(got, exp):
                    report(ctx, cfg, hid + [rnd, t, rep], alg, regs, steps, t, got, exp, mode=f'cold-start race, {T} threads',
                           extra={'all_thread_key_orders': [s_['keys'] for s_ in steps]})
    ctx.count('race_histories')

"""C16 - array coefficients, sequences, callables and plain numbers broadcast right."""
import copy
import random
from fractions import Fraction as Fr

from kvm import gen, ops, contracts
from kvm.iso import Iso
from kvm.compare import elem_diff, show_elem, mv_dict, coef_equal

META = {
    'level': 'exploration',
    'rule': ('three case families. (i) index: op(X, Y)[idx] == op(X[idx], Y[idx]) element-wise for array-valued X, Y (trailing shapes (n,), (m,n); '
             'containers ndarray / list of arrays / tuple of arrays; index expressions ints, negative ints, slices, tuples). (ii) setitem: '
             'X[idx] = V under a post-condition with an OLD snapshot on the real MultiVector.__setitem__ (icontract when available): exactly '
             'the addressed entries of every coefficient change to the assigned ones, the key tuple is unchanged. (iii) operand kinds: '
             '`left op right` for left/right in {multivector, number, numpy scalar, list, tuple, zero-argument callable, nested callable} and '
             'every infix operator and reflected form, with operands verified (in the reference model) not to commute under that operator: the '
             'result equals op(as_mv(left), as_mv(right)) in that order, a sequence gives a sequence of the same type, a callable is replaced by '
             'its value. Distinct = distinct (family, config, op, operand kinds / shapes / index).'),
    'assumptions': ['kvm/refmodel.py for the expected products and for the non-commutation filter'],
}
SHARD_DEADLINE = {'quick': 300, 'thorough': 3300}
INFIX = {'*': 'gp', '|': 'ip', '^': 'op', '&': 'rp', '>>': 'sw', '@': 'proj', '+': 'add', '-': 'sub', '/': 'div'}
METHODS = ['gp', 'ip', 'sp', 'lc', 'rc', 'op', 'rp', 'sw', 'proj', 'cp', 'acp', 'add', 'sub', 'div']
UNARY_ARR = ['neg', 'reverse', 'involute', 'conjugate', 'normsq', 'hodge', 'unhodge', 'outerexp', 'inv']
KINDS = ['mv', 'number', 'npscalar', 'list', 'tuple', 'callable', 'nested-callable', 'callable-list', 'callable-default-arg', 'bound-method',
         'partial', 'callable-object']


def floors(tier):
    f = {'distinct_nontrivial': 1500 if tier == 'quick' else 250000, 'index_cases': 500, 'setitem_cases': 250,
         'setitem_postconditions_evaluated': 250, 'operand_kind_cases': 600, 'noncommuting_sequence_or_callable_left': 150,
         'reflected_dispatch_cases': 200, 'container_ndarray': 150, 'container_list': 150, 'container_tuple': 50, 'callable_operand_cases': 300, 'post_update_probes_compared': 300,
         'mixed_rank_cases': 100}
    for sym in INFIX:
        f['infix_' + sym] = 40
    return f


def plan(tier, seed):
    rng = random.Random(f'C16-plan-{seed}')
    cfgs = [{'p': 2, 'q': 0, 'r': 0}, {'p': 3, 'q': 0, 'r': 0}, {'p': 2, 'q': 0, 'r': 1}, {'p': 1, 'q': 1, 'r': 0}, {'signature': [1, -1, 1]},
            {'named': '2DPGA'}, {'p': 1, 'q': 1, 'r': 1}, {'p': 3, 'q': 0, 'r': 0, 'opts': {'wrapper': 'identity'}}]
    if tier == 'thorough':
        cfgs += gen.sig_orderings(2, 3)[::2] + [gen.random_custom_cfg(rng, 3) for _ in range(6)]
    n = (200, 120, 320) if tier == 'quick' else (800, 500, 1500)
    U = []
    reps = 2 if tier == 'quick' else 4
    for c in cfgs:
        for _ in range(reps):
            U.append({'cfg': c, 'n_index': n[0], 'n_setitem': n[1], 'n_kinds': n[2], 'salt': rng.randrange(10 ** 6)})
    rng.shuffle(U)
    return [{'units': part} for part in gen.split(U, 16 if tier == 'quick' else 64)]


SET_PROBLEMS = []


def _snap_values(self):
    return [copy.deepcopy(v) for v in self.values()], tuple(self.keys())


def _setitem_post(self, indices, values, OLD):
    """Post-condition of MultiVector.__setitem__: exactly the addressed entries changed, to the assigned ones."""
    import numpy as np
    old_vals, old_keys = OLD.old
    if tuple(self.keys()) != old_keys:
        SET_PROBLEMS.append(['keys changed', list(old_keys), list(self.keys())])
        return True
    idx = indices if isinstance(indices, tuple) else (indices,)
    if hasattr(values, 'keys'):
        by_key = dict(zip(values.keys(), values.values()))
        new = [by_key[k] for k in old_keys]         # assignment from a multivector goes blade by blade
    else:
        new = values
    for j, (ov, cur) in enumerate(zip(old_vals, self.values())):
        ov = np.array(ov, dtype=float)
        exp = ov.copy()
        try:
            exp[idx] = new[j]
        except Exception as e:
            SET_PROBLEMS.append(['harness could not model the assignment', repr(e)[:80]])
            return True
        if not np.array_equal(exp, np.array(cur, dtype=float)):
            mask = np.zeros(ov.shape, dtype=bool)
            mask[idx] = True
            outside = bool(np.any((np.array(cur, dtype=float) != ov) & ~mask))
            SET_PROBLEMS.append(['coefficient %d differs after assignment' % j, 'entries outside the index changed' if outside else
                                 'addressed entries do not hold the assigned values'])
    return True


def run_shard(shard, ctx):
    from kingdon.multivector import MultiVector
    orig = MultiVector.__setitem__
    MultiVector.__setitem__ = contracts.with_post(orig, _snap_values, _setitem_post, 'MultiVector.__setitem__')
    try:
        for unit in shard['units']:
            cfg = unit['cfg']
            name = gen.cfg_str(cfg)
            alg = gen.make_or_skip(ctx, cfg)
            if alg is None:
                continue
            iso = Iso(alg)
            ctx.count('algebras')
            for _ in range(unit['n_index']):
                if ctx.out_of_time():
                    return
                index_case(ctx, alg, iso, cfg, name)
            for _ in range(max(6, unit['n_index'] // 6)):
                if ctx.out_of_time():
                    return
                mixed_rank_case(ctx, alg, cfg, name)
            for _ in range(unit['n_setitem']):
                if ctx.out_of_time():
                    return
                setitem_case(ctx, alg, cfg, name)
            for _ in range(unit['n_kinds']):
                if ctx.out_of_time():
                    return
                kinds_case(ctx, alg, iso, cfg, name)
            for _ in range(max(10, unit['n_kinds'] // 8)):
                if ctx.out_of_time():
                    return
                mixed_sequence_case(ctx, alg, iso, cfg, name)
    finally:
        MultiVector.__setitem__ = orig
        ctx.count('setitem_postconditions_evaluated', contracts.EVALS.get('MultiVector.__setitem__', 0))
        ctx.notes.append('contract backend: ' + contracts.BACKEND)


def array_mv(rng, alg, keys, shape, container):
    import numpy as np
    arrs = [np.array([rng.randint(-8, 8) / 2.0 for _ in range(int(np.prod(shape)))]).reshape(shape) + 0.25 for _ in keys]
    if container == 'ndarray':
        vals = np.array(arrs)
    elif container == 'list':
        vals = list(arrs)
    else:
        vals = tuple(arrs)
    return gen.mv_from(alg, keys, vals) if container != 'ndarray' else _from(alg, keys, vals)


def _from(alg, keys, vals):
    from kingdon.multivector import MultiVector
    return MultiVector.fromkeysvalues(alg, tuple(keys), vals)


def rand_index(rng, shape):
    if len(shape) >= 3 and rng.random() < 0.2:
        # two advanced indices separated by a slice (numpy then moves the broadcast axis to the front of the result)
        n0, n2 = shape[0], shape[2]
        first = sorted(rng.sample(range(n0), rng.randint(1, n0)))
        return (first, slice(None), rng.randrange(n2)) if rng.random() < 0.5 else (rng.randrange(n0), slice(None), sorted(rng.sample(range(n2), rng.randint(1, n2))))
    if rng.random() < 0.15:
        # a list index selects several entries of the first trailing axis (numpy fancy indexing)
        n = shape[0]
        return sorted(rng.sample(range(n), rng.randint(1, n)))
    idx = []
    for n in shape[:rng.randint(1, len(shape))]:
        r = rng.random()
        if r < 0.35:
            idx.append(rng.randrange(n))
        elif r < 0.5:
            idx.append(-rng.randint(1, n))
        elif r < 0.8:
            a = rng.randrange(n)
            idx.append(slice(a, rng.randint(a + 1, n)))
        else:
            idx.append(slice(None, None, rng.choice((1, 2))))
    if rng.random() < 0.18:
        # index entries that consume no axis (Ellipsis) or add one (None / numpy.newaxis)
        extra = rng.choice((Ellipsis, None))
        if extra is Ellipsis:
            idx = ([Ellipsis] + idx[-1:]) if rng.random() < 0.5 else (idx[:1] + [Ellipsis])
        else:
            idx.insert(rng.randint(0, len(idx)), None)
        return tuple(idx)
    return tuple(idx) if len(idx) > 1 or rng.random() < 0.5 else idx[0]


def checked_getitem(ctx, alg, cfg, name, X, kx, shape, container, idx):
    """X[idx] under an independent oracle: every coefficient of the result is numpy's coefficient[idx] (exactly the addressed entries).
    An index numpy accepts for the trailing shape must not raise.  Returns the indexed multivector or None."""
    import numpy as np
    coefs = [np.array(v, dtype=float) for v in X.values()]
    try:
        want = [c[idx] for c in coefs]
    except Exception:
        return None         # not a valid index for this shape: nothing to say
    st, sub = ctx.guarded(20, lambda: X[idx])
    ctx.count('getitem_oracle_checks')
    cid = [name, 'getitem', list(kx), list(shape), container, idx_repr(idx)]
    if st == 'timeout':
        return None
    if st == 'exc':
        ctx.violation('indexing a multivector raised on an index every coefficient accepts', cid, config=cfg, keys=list(kx), shape=list(shape),
                      container=container, index=idx_repr(idx), error=f'{type(sub).__name__}: {sub}'[:200])
        return None
    got = list(sub.values())
    bad = None
    if tuple(sub.keys()) != tuple(kx) or len(got) != len(want):
        bad = 'keys changed'
    else:
        for j, (g, w) in enumerate(zip(got, want)):
            if np.shape(g) != np.shape(w) or not np.array_equal(np.asarray(g, dtype=float), w):
                bad = f'coefficient of {alg.bin2canon[kx[j]]}: got shape {np.shape(g)} value {np.asarray(g).tolist()!r:.80}, addressed entries are shape {np.shape(w)} {w.tolist()!r:.80}'
                break
    if bad:
        ctx.violation('X[idx] does not hold exactly the addressed entries of every coefficient', cid, config=cfg, keys=list(kx), shape=list(shape),
                      container=container, index=idx_repr(idx), problem=bad)
        return None
    return sub


def idx_repr(i):
    return repr(i)


def index_case(ctx, alg, iso, cfg, name):
    import numpy as np
    rng = ctx.rng
    canon = tuple(alg.canon2bin.values())
    op = rng.choice(METHODS + UNARY_ARR + list(INFIX))
    unary = op in UNARY_ARR
    shape = rng.choice([(3,), (4,), (2, 3), (3, 2), (2, 3, 2)])
    container = rng.choice(['ndarray', 'list', 'list', 'tuple'])
    cap = 3 if op in ('sw', 'proj', 'div', 'inv', '>>', '@', '/') else 4
    kx = gen.random_subset(rng, canon, cap, 1)
    ky = gen.random_subset(rng, canon, cap, 1)
    X = array_mv(rng, alg, kx, shape, container)
    container_y = rng.choice(['ndarray', 'list']) if rng.random() < 0.3 else container
    Y = array_mv(rng, alg, ky, shape, container_y)
    idx = rand_index(rng, shape)
    cid = [name, 'index', op, list(kx), list(ky), list(shape), container, idx_repr(idx)]
    if not ctx.want(cid):
        return

    def apply(a, b):
        if unary:
            return getattr(a, op)()
        if op in INFIX:
            return eval(f'a {op} b', {'a': a, 'b': b})
        return getattr(a, op)(b)
    if checked_getitem(ctx, alg, cfg, name, X, kx, shape, container, idx) is None:
        return
    st, out = ctx.guarded(30, lambda: (apply(X, Y), apply(X[idx], Y[idx])))
    if st != 'ok':
        if st == 'exc':
            ctx.note_raised(out, 'index-' + op)
        return
    full, part = out
    st, whole = ctx.guarded(30, lambda: full[idx])
    if st == 'timeout':
        return
    if st == 'exc':
        # the operator succeeded on the arrays and on the indexed operands, but its result cannot be indexed
        const = [alg.bin2canon[k] for k, v in zip(full.keys(), full.values()) if np.ndim(v) == 0] if hasattr(full, 'keys') else []
        ctx.count('index_cases')
        ctx.case(cid)
        ctx.violation('op(X, Y)[idx] raises although op(X, Y) and op(X[idx], Y[idx]) succeed', cid, config=cfg, op=op, shape=list(shape), container=container,
                      index=idx_repr(idx), error=f'{type(whole).__name__}: {str(whole)[:120]}', exc_type=type(whole).__name__,
                      result_blades_with_a_plain_number_coefficient=const, result_blades=[alg.bin2canon[k] for k in full.keys()] if hasattr(full, 'keys') else None)
        return
    gw, gp_ = mv_dict(whole), mv_dict(part)
    if any(not np.all(np.isfinite(np.asarray(v, dtype=float))) for v in list(gw.values()) + list(gp_.values())):
        ctx.count('nonfinite_results_skipped')
        return
    ctx.count('index_cases')
    ctx.count('container_' + container)
    ctx.case(cid)
    if ctx.evaluations % 120 == 1:
        ctx.sample({'family': 'index', 'config': name, 'op': op, 'shape': list(shape), 'container': container, 'index': idx_repr(idx)})
    bad = elem_diff(gw, gp_)
    shapes_w = {k: np.shape(v) for k, v in gw.items()}
    shapes_p = {k: np.shape(v) for k, v in gp_.items()}
    if bad or any(shapes_w.get(k) != shapes_p.get(k) for k in set(gw) & set(gp_)):
        ctx.violation('op(X, Y)[idx] != op(X[idx], Y[idx])', cid, config=cfg, op=op, shape=list(shape), container=container, container_y=container_y,
                      index=idx_repr(idx), blades=[alg.bin2canon[k] for k in bad[:6]],
                      indexed_result=show_elem({k: gw.get(k) for k in bad[:3]}), result_of_indexed=show_elem({k: gp_.get(k) for k in bad[:3]}))


def mixed_rank_case(ctx, alg, cfg, name):
    """Both operands array-backed on the SAME blades, with different numbers of trailing dimensions: C holds one number per blade
    (a constant multivector), Y an array per blade whose last axis is as long as the number of blades (so that adding the two value
    containers with numpy would broadcast silently - along the wrong axis). op(C, Y)[idx] must equal op(C, Y[idx])."""
    import numpy as np
    rng = ctx.rng
    canon = tuple(alg.canon2bin.values())
    if len(canon) < 2:
        return
    kx = gen.random_subset(rng, canon, 3, 2)
    n = len(kx)
    shape = rng.choice([(n,), (2, n), (n, n)])      # (rank <= 2: rank-3 indices on array-backed operands run into the known finding)
    op = rng.choice(['add', 'sub', '+', '-', 'gp', '*', 'op', 'ip', 'acp'])
    C = _from(alg, kx, np.array([rng.randint(-8, 8) / 2.0 + 0.25 for _ in kx]))
    Y = array_mv(rng, alg, kx, shape, 'ndarray')
    idx = rand_index(rng, shape)
    swap = rng.random() < 0.5
    cid = [name, 'mixed-rank', op, list(kx), list(shape), idx_repr(idx), swap]
    if not ctx.want(cid):
        return

    def apply(a, b):
        if swap:
            a, b = b, a
        if op in INFIX:
            return eval(f'a {op} b', {'a': a, 'b': b})
        return getattr(a, op)(b)
    st, out = ctx.guarded(30, lambda: (apply(C, Y)[idx], apply(C, Y[idx])))
    if st != 'ok':
        if st == 'exc':
            ctx.note_raised(out, 'mixed-rank-' + op)
        return
    ctx.count('mixed_rank_cases')
    ctx.case(cid)
    gw, gp_ = mv_dict(out[0]), mv_dict(out[1])
    bad = elem_diff(gw, gp_)
    if bad or any(np.shape(gw[k]) != np.shape(gp_[k]) for k in set(gw) & set(gp_)):
        ctx.violation('op(C, Y)[idx] != op(C, Y[idx]) for a constant array-backed C on the same blades', cid, config=cfg, op=op, shape=list(shape),
                      index=idx_repr(idx), swapped=swap, blades=[alg.bin2canon[k] for k in bad[:6]],
                      indexed_result=show_elem({k: gw.get(k) for k in bad[:3]}), result_of_indexed=show_elem({k: gp_.get(k) for k in bad[:3]}))


def setitem_case(ctx, alg, cfg, name):
    import numpy as np
    rng = ctx.rng
    canon = tuple(alg.canon2bin.values())
    shape = rng.choice([(4,), (3,), (2, 3), (3, 4), (2, 2), (3, 3), (2, 2, 2)])
    container = rng.choice(['ndarray', 'list'])
    kx = gen.random_subset(rng, canon, 4, 1)
    if rng.random() < 0.3:
        kx = gen.permuted(rng, kx)
    X = array_mv(rng, alg, kx, shape, container)
    idx = rand_index(rng, shape)
    sub = checked_getitem(ctx, alg, cfg, name, X, kx, shape, container, idx)
    if sub is None:
        return
    how = rng.choice(['mv', 'raw', 'scalar-mv', 'mv-permuted-keys'])
    cid = [name, 'setitem', list(kx), list(shape), container, idx_repr(idx), how]
    if not ctx.want(cid):
        return
    subshape = np.shape(list(sub.values())[0])
    newvals = [np.array(np.random.RandomState(rng.randrange(10 ** 6)).randint(-9, 9, size=subshape), dtype=float) + 0.5 for _ in kx]
    if how == 'mv':
        V = array_mv(rng, alg, kx, subshape, 'list')
        V = gen.mv_from(alg, kx, newvals)
    elif how == 'mv-permuted-keys':
        # the source holds the same blades in another key order (kingdon may refuse; if it accepts, coefficients go by blade)
        if len(kx) < 2:
            return
        order = list(range(len(kx)))
        while order == sorted(order):
            rng.shuffle(order)
        V = gen.mv_from(alg, [kx[i] for i in order], [newvals[i] for i in order])
    elif how == 'scalar-mv':
        if subshape != ():
            return      # a scalar-valued multivector assigned to a multi-entry slice relies on numpy broadcasting rules the statement does not fix
        newvals = [float(rng.randint(-5, 5)) + 0.5 for _ in kx]
        V = gen.mv_from(alg, kx, newvals)
    else:
        V = newvals
    # warm whatever the object may cache about itself, so that a value remembered across the in-place update is visible afterwards
    probes = {'normsq': lambda m: m.normsq(), 'norm': lambda m: m.norm(), 'reverse': lambda m: ~m, 'square': lambda m: m * m,
              'grades': lambda m: m.grade(*m.grades[:1]), 'asfullmv': lambda m: m.asfullmv(), 'neg': lambda m: -m, 'normalized': lambda m: m.normalized(),
              'inv': lambda m: m.inv(), 'involute': lambda m: m.involute(), 'outerexp': lambda m: m.outerexp()}
    used = rng.sample(sorted(probes), 3)
    for pn in used:
        ctx.guarded(20, probes[pn], X)
    before = len(SET_PROBLEMS)
    n0 = contracts.EVALS.get('MultiVector.__setitem__', 0)
    st, out = ctx.guarded(20, X.__setitem__, idx, V)
    if st != 'ok':
        if st == 'exc':
            ctx.note_raised(out, 'setitem')
            if how in ('mv', 'raw', 'scalar-mv'):
                # the same assignment on every coefficient array is accepted by numpy (the harness built the new values with exactly the
                # shape of X[idx]): kingdon refusing it means the addressed entries cannot be assigned
                try:
                    for cj, nj in zip([np.array(v, dtype=float) for v in X.values()], newvals):
                        cj[idx] = nj
                    numpy_ok = True
                except Exception:
                    numpy_ok = False
                if numpy_ok:
                    ctx.count('setitem_cases')
                    ctx.case(cid)
                    ctx.violation('assignment through a multivector raised although every coefficient accepts it', cid, config=cfg, keys=list(kx),
                                  shape=list(shape), container=container, index=idx_repr(idx), assigned_as=how,
                                  error=f'{type(out).__name__}: {str(out)[:160]}')
        return
    if contracts.EVALS.get('MultiVector.__setitem__', 0) == n0:
        ctx.count('setitem_contract_not_reached')
        return
    ctx.count('setitem_cases')
    ctx.case(cid)
    probs = SET_PROBLEMS[before:]
    probs = [p for p in probs if p[0] != 'harness could not model the assignment']
    # results computed on the updated object equal results on a fresh object holding the same coefficients
    import numpy as np
    vals_now = X.values()
    fresh = _from(alg, kx, np.array(vals_now, dtype=float).copy()) if container == 'ndarray' else gen.mv_from(alg, kx, [np.array(v, dtype=float).copy() for v in vals_now])
    for pn in used:
        s1, r1 = ctx.guarded(20, probes[pn], X)
        s2, r2 = ctx.guarded(20, probes[pn], fresh)
        if s1 == 'ok' and s2 == 'ok':
            ctx.count('post_update_probes_compared')
            g1, g2 = mv_dict(r1), mv_dict(r2)
            if any(not np.all(np.isfinite(np.asarray(v, dtype=complex))) for v in list(g1.values()) + list(g2.values())):
                continue
            if elem_diff(g1, g2):
                probs.append([f'{pn}() after the update differs from {pn}() of a fresh multivector with the same coefficients (stale value)'])
    if probs:
        ctx.violation('assignment through a multivector touched the wrong entries', cid, config=cfg, keys=list(kx), shape=list(shape),
                      container=container, index=idx_repr(idx), assigned_as=how, problems=probs[:6])


def mixed_sequence_case(ctx, alg, iso, cfg, name):
    """A list/tuple operand whose elements are multivectors of different coefficient kinds (exact numbers, sympy symbols, arrays) on the
    SAME blades: the result is the sequence of the single results, element by element - whatever kind the neighbours are."""
    import numpy as np
    import sympy
    rng = ctx.rng
    canon = tuple(alg.canon2bin.values())
    sym = rng.choice([s for s in INFIX if INFIX[s] not in ('div',)])
    ks = gen.random_subset(rng, canon, 3, 1)
    kr = gen.random_subset(rng, canon, 3, 1)
    R = gen.mv_from(alg, kr, [Fr(gen.small_int(rng, -4, 4, nonzero=True)) for _ in kr])

    def elem(kind, j):
        if kind == 'num':
            return gen.mv_from(alg, ks, [Fr(gen.small_int(rng, -4, 4)) for _ in ks])      # zeros allowed
        if kind == 'sym':
            return gen.mv_from(alg, ks, [sympy.Symbol(f's{j}_{k}') for k in ks])
        if kind == 'symzero':
            t = sympy.Symbol(f't{j}')
            return gen.mv_from(alg, ks, [t - t if i == 0 else sympy.Symbol(f's{j}_{k}') for i, k in enumerate(ks)])
        return gen.mv_from(alg, ks, [np.array([rng.randint(-4, 4) / 2.0 for _ in range(3)]) for _ in ks])
    kinds = [rng.choice(('num', 'sym', 'array', 'symzero')) for _ in range(rng.randint(2, 4))]
    if len(set(kinds)) == 1:
        kinds[0] = 'sym' if kinds[0] != 'sym' else 'num'
    seq_type = rng.choice((list, tuple))
    seq = seq_type(elem(k, j) for j, k in enumerate(kinds))
    side = rng.choice(('right', 'left'))
    cid = [name, 'mixed-sequence', sym, side, kinds, list(ks), list(kr), seq_type.__name__]
    if not ctx.want(cid):
        return

    def single(e):
        return eval(f'a {sym} b', {'a': R, 'b': e} if side == 'right' else {'a': e, 'b': R})
    singles = [ctx.guarded(30, single, e) for e in seq]
    if any(st != 'ok' for st, _ in singles):
        for st, r in singles:
            if st == 'exc':
                ctx.note_raised(r, 'mixed-seq-single')
        return
    st, got = ctx.guarded(30, lambda: eval(f'a {sym} b', {'a': R, 'b': seq} if side == 'right' else {'a': seq, 'b': R}))
    ctx.count('mixed_kind_sequence_cases')
    ctx.case(cid)
    wit = dict(config=cfg, expression=f'R {sym} <{seq_type.__name__} of {kinds}>' if side == 'right' else f'<{seq_type.__name__} of {kinds}> {sym} R',
               element_keys=list(ks), R_keys=list(kr))
    if st == 'timeout':
        return
    if st == 'exc':
        ctx.violation('a sequence operand raised although the operator succeeds on every element alone', cid, error=f'{type(got).__name__}: {str(got)[:160]}', **wit)
        return
    if type(got) is not seq_type or len(got) != len(seq):
        ctx.violation('sequence operand did not give the sequence of results of the same type', cid, got_type=type(got).__name__, **wit)
        return
    for j, (g, (_, w)) in enumerate(zip(got, singles)):
        gd = mv_dict(g) if hasattr(g, 'keys') else {0: g}
        wd = mv_dict(w) if hasattr(w, 'keys') else {0: w}
        if elem_diff(gd, wd):
            ctx.violation('element of the sequence result differs from the operator applied to that element alone', cid + [j], element=j, element_kind=kinds[j],
                          in_sequence=show_elem(gd), alone=show_elem(wd), **wit)
            return


def wrap_operand(rng, kind, mv, mv2, number):
    import numpy as np
    if kind == 'mv':
        return mv, [mv], 'single'
    if kind == 'number':
        return number, [number], 'single'
    if kind == 'npscalar':
        return np.float64(number), [float(number)], 'single'
    if kind == 'list':
        return [mv, mv2], [mv, mv2], list
    if kind == 'tuple':
        return (mv, mv2), [mv, mv2], tuple
    if kind == 'callable':
        return (lambda: mv), [mv], 'single'
    if kind == 'nested-callable':
        return (lambda: (lambda: mv)), [mv], 'single'
    if kind == 'callable-list':
        return (lambda: [mv, mv2]), [mv, mv2], list
    if kind == 'callable-default-arg':
        return (lambda m=mv: m), [mv], 'single'           # zero-argument call, one parameter with a default
    if kind == 'bound-method':
        class Holder:
            def __init__(self, m):
                self.m = m

            def current(self):
                return self.m
        return Holder(mv).current, [mv], 'single'
    if kind == 'partial':
        import functools
        return functools.partial(lambda m: m, mv), [mv], 'single'
    if kind == 'callable-object':
        class Deferred:
            def __call__(self):
                return mv
        return Deferred(), [mv], 'single'
    raise KeyError(kind)


def kinds_case(ctx, alg, iso, cfg, name):
    rng = ctx.rng
    R = iso.ref
    canon = tuple(alg.canon2bin.values())
    sym = rng.choice(list(INFIX))
    op = INFIX[sym]
    lk = rng.choice(KINDS)
    rk = rng.choice(KINDS)
    if lk in ('number', 'npscalar') and rk in ('number', 'npscalar'):
        rk = 'mv'
    if 'mv' not in (lk, rk):
        # Python only dispatches to kingdon when one operand is a multivector (-3 * [a, b] is list repetition, not kingdon's business)
        if rng.random() < 0.5:
            lk = 'mv'
        else:
            rk = 'mv'
    if all(k in ('list', 'tuple', 'callable-list') for k in (lk, rk)):
        rk = 'mv'
    cap = 3 if op in ('sw', 'proj', 'div') else 4

    def rand_mv():
        ks = gen.random_subset(rng, canon, cap, 1)
        return gen.mv_from(alg, ks, [Fr(gen.small_int(rng, -4, 4, nonzero=True)) for _ in ks])
    # choose operands that do not commute under op (checked in the reference model)
    for attempt in range(12):
        a, a2, b, b2 = rand_mv(), rand_mv(), rand_mv(), rand_mv()
        try:
            ra, rb = iso.mv_to_ref(a), iso.mv_to_ref(b)
            noncomm = bool(elem_diff(ops.ref_apply(iso, op, ra, rb), ops.ref_apply(iso, op, rb, ra)))
        except ops.NoReference:
            continue
        if noncomm or attempt >= 8:
            break
    else:
        return
    number = rng.choice((2, -3, Fr(1, 2), 0.5, 0, 0.0, 1, -1))
    left, lelems, lshape = wrap_operand(rng, lk, a, a2, number)
    right, relems, rshape = wrap_operand(rng, rk, b, b2, number)
    cid = [name, 'kinds', sym, lk, rk, [list(a.keys()), list(b.keys())], [[str(v) for v in a.values()], [str(v) for v in b.values()]]]
    if not ctx.want(cid):
        return
    st, got = ctx.guarded(30, lambda: eval(f'left {sym} right', {'left': left, 'right': right}))
    if st != 'ok':
        if st == 'exc':
            ctx.note_raised(got, f'{sym}')
            # does the same expression succeed with the callables replaced by their values? then the callable was not "replaced by its value"
            plain_l = lelems[0] if lshape == 'single' else (lshape(lelems))
            plain_r = relems[0] if rshape == 'single' else (rshape(relems))
            if callable(left) or callable(right):
                st0, _g = ctx.guarded(30, lambda: eval(f'left {sym} right', {'left': plain_l if callable(left) else left,
                                                                             'right': plain_r if callable(right) else right}))
                if st0 == 'ok' and not isinstance(got, ZeroDivisionError):
                    ctx.violation('a zero-argument callable operand was not replaced by its value', cid, config=cfg,
                                  expression=f'<{lk}> {sym} <{rk}>', error=f'{type(got).__name__}: {str(got)[:160]}')
        return

    def refelem(e):
        return iso.mv_to_ref(e) if hasattr(e, 'keys') else {0: Fr(e) if not isinstance(e, float) else e}
    try:
        exp = [[ops.ref_apply(iso, op, refelem(le), refelem(re_)) for re_ in relems] for le in lelems]
    except ops.NoReference:
        ctx.count('no_reference_value_skipped')
        return
    # expected nesting, following the statement: a sequence operand yields the sequence of results (right sequence mapped first)
    if rshape != 'single' and lshape != 'single':
        return
    if rshape != 'single':
        want_type, flat = rshape, [exp[0][j] for j in range(len(relems))]
    elif lshape != 'single':
        want_type, flat = lshape, [exp[i][0] for i in range(len(lelems))]
    else:
        want_type, flat = 'single', [exp[0][0]]
    ctx.count('operand_kind_cases')
    ctx.count('infix_' + sym)
    if lk != 'mv':
        ctx.count('reflected_dispatch_cases')
    seq_or_call_left = lk not in ('mv', 'number', 'npscalar')
    if 'callable' in lk + rk or 'method' in lk + rk or 'partial' in lk + rk:
        ctx.count('callable_operand_cases')
    if noncomm and seq_or_call_left:
        ctx.count('noncommuting_sequence_or_callable_left')
    ctx.case(cid, nontrivial=noncomm or lk == rk == 'mv')
    if ctx.evaluations % 120 == 2:
        ctx.sample({'family': 'operand kinds', 'config': name, 'expr': f'<{lk}> {sym} <{rk}>', 'noncommuting_operands': noncomm})
    wit = dict(config=cfg, expression=f'<{lk}> {sym} <{rk}>', op=op, left_kind=lk, right_kind=rk, noncommuting_operands=noncomm,
               left=[show_elem(mv_dict(e)) if hasattr(e, 'keys') else str(e) for e in lelems],
               right=[show_elem(mv_dict(e)) if hasattr(e, 'keys') else str(e) for e in relems])
    if want_type == 'single':
        if isinstance(got, (list, tuple)):
            ctx.violation('single operands gave a sequence', cid, got_type=type(got).__name__, **wit)
            return
        gots = [got]
    else:
        if type(got) is not want_type or len(got) != len(flat):
            ctx.violation('sequence operand did not give the sequence of results of the same type', cid,
                          got_type=type(got).__name__, expected_type=want_type.__name__, **wit)
            return
        gots = list(got)
    for j, (g, e) in enumerate(zip(gots, flat)):
        ge = iso.mv_to_ref(g) if hasattr(g, 'keys') else {0: g}
        bad = elem_diff(ge, e)
        if bad:
            swapped = None
            try:
                le = lelems[j] if lshape != 'single' else lelems[0]
                re_ = relems[j] if rshape != 'single' else relems[0]
                swapped = not elem_diff(ge, ops.ref_apply(iso, op, refelem(re_), refelem(le)))
            except Exception:
                pass
            ctx.violation('left op right does not equal op(left, right)', cid + [j], element=j, got=show_elem(ge), expected=show_elem(e),
                          equals_swapped_operand_order=swapped, **wit)
            return

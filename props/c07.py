"""C07 - inverse and division are exact two-sided inverses wherever they return."""
import random
from fractions import Fraction as Fr

from kvm import gen, ops, workload
from kvm.iso import Iso
from kvm.compare import elem_diff, show_elem, mv_dict

META = {
    'level': 'exploration',
    'rule': ('one case = (configuration, ordered key tuple incl. permuted / zero-padded / dense layouts, coefficient vector of small ints or '
             'Fractions): x.inv() is executed; if it returns, x*x.inv() and x.inv()*x (kingdon\'s gp and the reference gp) must be the scalar 1 '
             '(exactly for d<=5, 1e-9 otherwise); if it raises ZeroDivisionError the operand must be singular according to exact Gaussian '
             'elimination on its left-multiplication matrix in the reference model; a/b == a*b.inv(), n/x == n*x.inv(), x**-k == x.inv()**k. '
             'Distinct = distinct (config, keys, values).'),
    'assumptions': ['kvm/refmodel.py incl. rational Gaussian elimination as invertibility oracle', 'kvm/iso.py'],
}
SHARD_DEADLINE = {'quick': 300, 'thorough': 3300}
CASE_TIMEOUT = {'quick': 25, 'thorough': 120}


def floors(tier):
    return {'distinct_nontrivial': 1000 if tier == 'quick' else 80000, 'inverse_returned': 700, 'two_sided_checked': 700,
            'singular_operands_seen': 40, 'zerodivision_checked_against_oracle': 40, 'division_checked': 300,
            'number_over_x_checked': 150, 'negative_power_checked': 150, 'd5_closed_form_cases': 40, 'd6plus_iterative_cases': 100, 'd6plus_degenerate_r2_cases': 60,
            'padded_or_permuted_layouts': 300, 'empty_dividends': 60, 'single_grade_non_blade_operands': 40, 'inverse_after_in_place_update': 100,
            'wrapper_order_sequence_inverses': 60, 'rich_mixed_grade_d7_cases': 2}


def plan(tier, seed):
    rng = random.Random(f'C07-plan-{seed}')
    U = []

    def u(cfg, count, cap, dense=False):
        return [dict(cfg=cfg, count=count, cap=cap, dense=dense)]
    if tier == 'quick':
        for c in gen.sig_orderings(1, 2):
            U += u(c, 40, 4, True)
        for c in gen.sig_orderings(3, 3):
            U += u(c, 25, 8, True)
        for c in gen.pqr_all(4, 4):
            U += u(c, 30, 8)
        for c in rng.sample(gen.pqr_all(5, 5), 8):
            U += u(c, 25, 4)
        for c in rng.sample(gen.pqr_all(6, 6), 3):
            U += u(c, 12, 3)
        # the iterative (d >= 6) scheme in degenerate algebras, where fewer powers are independent
        for c in ({'p': 4, 'q': 0, 'r': 2}, {'p': 2, 'q': 2, 'r': 2}, {'p': 1, 'q': 0, 'r': 5}, {'p': 0, 'q': 0, 'r': 6}, {'p': 3, 'q': 0, 'r': 3},
                  {'signature': [0, 1, 0, -1, 1, 0]}):
            U += u(c, 40, 4)
        for c in rng.sample(gen.pqr_all(7, 7), 3):
            U += u(c, 4, 3)
        for _ in range(8):
            U += u(gen.random_custom_cfg(rng, rng.choice((2, 3, 3, 4))), 30, 6)
        for c in gen.NAMED:
            U += u(c, 25, 4)
        # the symbolic zero filter switched off: the closed forms (d <= 5) and the iterative scheme (d >= 6) see vanishing coefficients as stored zeros
        for c in ({'p': 3, 'q': 0, 'r': 0}, {'p': 3, 'q': 0, 'r': 1}, {'p': 6, 'q': 0, 'r': 0}, {'p': 4, 'q': 1, 'r': 1}):
            U += u(dict(c, opts={'simp_func': 'none'}), 12 if gen.cfg_dim(c) >= 6 else 30, 3)
        # a wrapper (JIT-decorator stand-in) with operands stored in several key orders
        for c, w in (({'p': 2, 'q': 0, 'r': 0}, 'wraps'), ({'p': 1, 'q': 3, 'r': 0}, 'identity'), ({'p': 3, 'q': 0, 'r': 0}, 'wraps'), ({'p': 2, 'q': 0, 'r': 1}, 'identity')):
            U += u(dict(c, opts={'wrapper': w}), 25, 4)
        # one rich mixed-grade element per 7-D algebra (about 10 s each)
        for c in ({'p': 7, 'q': 0, 'r': 0}, {'p': 4, 'q': 3, 'r': 0}, {'p': 6, 'q': 1, 'r': 0}, {'p': 5, 'q': 1, 'r': 1}):
            U += [dict(cfg=c, count=1, cap=4, dense=False, rich=True)]
        nshards = 16
    else:
        for c in gen.sig_orderings(1, 2):
            U += u(c, 900, 4, True)
        for c in gen.sig_orderings(3, 3):
            U += u(c, 600, 8, True)
        for c in gen.sig_orderings(4, 4):
            U += u(c, 240, 8)
        for c in gen.pqr_all(5, 5):
            U += u(c, 400, 4)
        for c in gen.pqr_all(6, 6)[::2]:
            U += u(c, 120, 3)
        for c in [c for c in gen.pqr_all(6, 6) if c['r'] >= 2] + [{'signature': gen.random_sig(rng, 6)} for _ in range(10)]:
            U += u(c, 150, 4)
        for c in rng.sample(gen.pqr_all(7, 7), 16):
            U += u(c, 12, 3)
        for _ in range(300):
            U += u(gen.random_custom_cfg(rng, rng.choice((2, 3, 3, 4, 4, 5))), 120, 5)
        for c in gen.NAMED:
            U += u(c, 60, 4)
        for c in rng.sample(gen.pqr_all(3, 5), 8) + rng.sample(gen.pqr_all(6, 6), 4):
            U += u(dict(c, opts={'simp_func': 'none'}), 40 if gen.cfg_dim(c) >= 6 else 120, 3)
        for c, w in zip(rng.sample(gen.sig_orderings(2, 3), 12), ('wraps', 'identity') * 6):
            U += u(dict(c, opts={'wrapper': w}), 150, 4)
        for c in gen.pqr_all(7, 7)[::3]:
            U += [dict(cfg=c, count=2, cap=4, dense=False, rich=True)]
        nshards = 64
    rng.shuffle(U)
    return [{'units': part} for part in gen.split(U, nshards)]


def run_shard(shard, ctx):
    for unit in shard['units']:
        if ctx.out_of_time():
            ctx.count('units_skipped_out_of_time')
            continue
        cfg = unit['cfg']
        name = gen.cfg_str(cfg)
        alg = gen.make_or_skip(ctx, cfg)
        if alg is None:
            continue
        iso = Iso(alg)
        ctx.count('algebras')
        canon = tuple(alg.canon2bin.values())
        for j in range(unit['count']):
            if ctx.out_of_time():
                break
            one_operand(ctx, alg, iso, cfg, name, canon, unit)


def gen_operand(ctx, alg, canon, unit):
    rng = ctx.rng
    d = alg.d
    cap = unit['cap']
    layout = 'canonical'
    if unit.get('rich'):
        # d >= 7, odd: floor(d/2) commuting bivectors plus the remaining vector - an element whose minimal polynomial needs the full
        # number of powers of the iterative scheme (fewer blades satisfy lower-degree polynomials; more are unaffordable)
        keys = tuple(0b11 << (2 * i) for i in range(d // 2)) + ((1 << (d - 1),) if d % 2 else ())
        vals = {k: Fr(gen.small_int(rng, 1, 5) * rng.choice((1, -1)), rng.choice((1, 1, 2))) for k in keys}
        return keys, vals, 'rich-mixed'
    if d >= 4 and rng.random() < 0.15:
        # a homogeneous operand that is not a blade (e.g. e12 + e34): 2-3 blades of one grade
        g = rng.choice([g_ for g_ in range(1, d) if len([k for k in canon if bin(k).count('1') == g_]) >= 2])
        pool = [k for k in canon if bin(k).count('1') == g]
        keys = tuple(rng.sample(pool, min(len(pool), rng.randint(2, 3))))
        layout = 'single-grade'
    elif unit.get('dense') and rng.random() < 0.2:
        keys = canon if rng.random() < 0.5 else tuple(range(len(canon)))
        layout = 'dense'
    else:
        keys = gen.random_subset(rng, canon, cap, 1)
    vals = {}
    kind = rng.choice(('int', 'int', 'frac'))
    for k in keys:
        vals[k] = (gen.small_int(rng, -3, 3) if kind == 'int' else gen.small_frac(rng))
        if kind == 'int':
            vals[k] = Fr(vals[k])
    if all(v == 0 for v in vals.values()):
        vals[keys[0]] = Fr(1)
    r = rng.random()
    if layout == 'single-grade':
        if r < 0.3:
            keys = gen.permuted(rng, keys)
    elif layout != 'dense' and r < 0.25:
        keys = gen.permuted(rng, keys)
        layout = 'permuted'
    elif layout != 'dense' and r < 0.5:
        maxpad = {True: 4, False: 2}[d <= 4]
        keys, extra = gen.padded(rng, keys, canon, maxpad)
        for k in extra:
            vals[k] = Fr(0)
        if extra:
            layout = 'padded'
    return keys, vals, layout


def one_operand(ctx, alg, iso, cfg, name, canon, unit):
    R = iso.ref
    d = alg.d
    to = CASE_TIMEOUT[ctx.tier] if not unit.get('rich') else 120
    keys, vals, layout = gen_operand(ctx, alg, canon, unit)
    cid = [name, list(keys), [str(vals[k]) for k in keys]]
    if not ctx.want(cid):
        return
    x = ops.value_mv(alg, keys, vals)
    X = iso.mv_to_ref(x)
    one = {0: 1}
    exact = d <= 5
    tol = 0 if exact else 1e-9
    st, xi = ctx.guarded(to, lambda: x.inv())
    if st == 'timeout':
        ctx.count('case_timeouts')
        return
    ctx.case(cid)
    if ctx.evaluations % 120 == 1:
        ctx.sample({'config': name, 'keys': list(keys), 'values': [str(vals[k]) for k in keys], 'layout': layout})
    if layout != 'canonical':
        ctx.count('padded_or_permuted_layouts')
    if layout == 'single-grade':
        ctx.count('single_grade_non_blade_operands')
    if d == 5:
        ctx.count('d5_closed_form_cases')
    if d >= 6:
        ctx.count('d6plus_iterative_cases')
        if alg.r >= 2:
            ctx.count('d6plus_degenerate_r2_cases')
    wit = dict(config=cfg, keys=list(keys), values=[str(vals[k]) for k in keys], layout=layout)
    if st == 'exc':
        ctx.note_raised(xi, 'inv')
        if isinstance(xi, ZeroDivisionError):
            sing = R.is_singular(X)
            ctx.count('zerodivision_checked_against_oracle')
            if sing:
                ctx.count('singular_operands_seen')
            else:
                ctx.violation('ZeroDivisionError for an invertible operand', cid, op='inv', **wit)
        return
    ctx.count('inverse_returned')
    XI = iso.mv_to_ref(xi)

    def isone(e):
        if exact:
            # exact coefficient types in d <= 5: the products are the scalar 1 *exactly* (Python compares float and Fraction exactly,
            # so a float result only passes if it carries no rounding error at all)
            try:
                return all((v == 1) if k == 0 else (v == 0) for k, v in e.items()) and (0 in e or not e) and e.get(0, 0) == 1
            except Exception:
                return False
        return not elem_diff(e, one, tol=1e-7)
    st2, prods = ctx.guarded(to, lambda: (mv_dict(x * xi), mv_dict(xi * x)))
    refl, refr = R.gp(X, XI), R.gp(XI, X)
    ctx.count('two_sided_checked')
    bad = []
    if st2 == 'ok':
        if not isone(prods[0]):
            bad.append(['x*x.inv() (kingdon gp)', show_elem(prods[0])])
        if not isone(prods[1]):
            bad.append(['x.inv()*x (kingdon gp)', show_elem(prods[1])])
    if not isone(refl):
        bad.append(['x*x.inv() (reference gp)', show_elem(refl)])
    if not isone(refr):
        bad.append(['x.inv()*x (reference gp)', show_elem(refr)])
    if bad:
        sing = R.is_singular(X) if d <= 6 else None
        if sing:
            ctx.count('singular_operands_seen')
        kind = 'inverse is not a two-sided inverse' if not sing else 'value returned for a singular operand'
        hp = None
        if d >= 6 and not sing:
            # the d >= 6 scheme evaluates expanded high-degree polynomials with float constants: distinguish a wrong formula from
            # cancellation error by repeating the very same call with 400-bit mpmath coefficients
            hp = high_precision_identity(ctx, alg, keys, vals, to)
            if hp == 'exact-in-high-precision':
                kind = 'inverse inaccurate in double precision (cancellation), exact in high precision'
                ctx.count('float_cancellation_failures_d6plus')
        err = None
        try:
            err = max(abs(complex(v) - (1 if k == 0 else 0)) for k, v in (prods[0] if st2 == 'ok' else refl).items())
        except Exception:
            pass
        ctx.violation(kind, cid, op='inv', d=d, singular_per_oracle=sing, high_precision_recheck=hp, max_abs_error=err,
                      inverse=show_elem(mv_dict(xi)), products=bad, **wit)
        return
    rng = ctx.rng
    if unit.get('rich'):
        ctx.count('rich_mixed_grade_d7_cases')
        return
    if cfg.get('opts', {}).get('wrapper') and len(keys) >= 2:
        # a wrapper is configured: the same element stored in another key order is inverted next, then the first object again; every
        # returned inverse is judged with the reference product (kingdon's own product would go through the same wrapper)
        kp = gen.permuted(rng, tuple(keys))
        x2 = ops.value_mv(alg, kp, vals)
        for label, obj in (('other key order', x2), ('first key order again', x)):
            stw, xw = ctx.guarded(to, lambda: obj.inv())
            if stw != 'ok':
                if stw == 'exc':
                    ctx.violation('x.inv() raises for another storage order of an operand it inverted before', cid + ['order', label], op='inv', d=d,
                                  error=repr(xw)[:120], order=list(kp), **wit)
                continue
            ctx.count('wrapper_order_sequence_inverses')
            XW = iso.mv_to_ref(xw)
            if not isone(R.gp(X, XW)) or not isone(R.gp(XW, X)):
                ctx.violation('inverse is not a two-sided inverse', cid + ['order', label], op='inv', d=d, step=label, order=list(kp),
                              inverse=show_elem(mv_dict(xw)), expected=show_elem(XI), **wit)
    # history on one object: invert, update a coefficient in place, invert again - the second inverse belongs to the new coefficients
    if rng.random() < 0.2 and isinstance(x.values(), list):
        j = rng.randrange(len(keys))
        newv = vals[keys[j]] + rng.choice((1, 2, -1))
        x.values()[j] = newv
        vals2 = dict(vals)
        vals2[keys[j]] = newv
        fresh = ops.value_mv(alg, keys, vals2)
        stA, ia = ctx.guarded(to, lambda: x.inv())
        stB, ib = ctx.guarded(to, lambda: fresh.inv())
        ctx.count('inverse_after_in_place_update')
        if stA == 'ok' and stB == 'ok':
            if elem_diff(mv_dict(ia), mv_dict(ib), tol=1e-9 if exact else 1e-6):
                ctx.violation('x.inv() after an in-place update is not the inverse of the updated x', cid + ['stale'], op='inv', d=d,
                              updated_key=keys[j], new_value=str(newv), got=show_elem(mv_dict(ia)), expected=show_elem(mv_dict(ib)), **wit)
        elif (stA == 'ok') != (stB == 'ok') and 'timeout' not in (stA, stB):
            ctx.violation('x.inv() after an in-place update behaves differently from a fresh multivector with the same coefficients', cid + ['stale'],
                          op='inv', d=d, same_object=repr(ia)[:100] if stA == 'exc' else 'value', fresh_object=repr(ib)[:100] if stB == 'exc' else 'value', **wit)
        x.values()[j] = vals[keys[j]]
    # division, number / x, negative powers
    ka = gen.random_subset(rng, canon, min(unit['cap'], 4), 1)
    r_ = rng.random()
    if r_ < 0.12:
        ka = ()                     # the empty multivector as dividend: 0 / b must be 0
        ctx.count('empty_dividends')
    a = ops.value_mv(alg, ka, {k: (Fr(0) if 0.12 <= r_ < 0.2 else Fr(gen.small_int(rng, -3, 3))) for k in ka})
    st3, q = ctx.guarded(to, lambda: a / x)
    if st3 == 'ok':
        ctx.count('division_checked')
        want = R.gp(iso.mv_to_ref(a), XI)
        if elem_diff(iso.mv_to_ref(q), want, tol=(1e-9 if exact else 1e-7)):
            ctx.violation('a/b != a*b.inv()', cid + ['div', list(ka)], op='div', a_keys=list(ka), a_values=[str(v) for v in a.values()],
                          got=show_elem(iso.mv_to_ref(q)), expected=show_elem(want), **wit)
    elif st3 == 'exc':
        ctx.note_raised(q, 'div')
        if isinstance(q, ZeroDivisionError):
            ctx.violation('ZeroDivisionError from a/b although b.inv() returned', cid + ['div', list(ka)], op='div', **wit)
    n = rng.choice((1, 2, -3, Fr(1, 2)))
    st4, q = ctx.guarded(to, lambda: n / x)
    if st4 == 'ok':
        ctx.count('number_over_x_checked')
        want = R.scale(XI, n)
        if elem_diff(iso.mv_to_ref(q), want, tol=(1e-9 if exact else 1e-7)):
            ctx.violation('number/x != number*x.inv()', cid + ['rdiv', str(n)], op='rtruediv', number=str(n),
                          got=show_elem(iso.mv_to_ref(q)), expected=show_elem(want), **wit)
    elif st4 == 'exc':
        ctx.note_raised(q, 'rtruediv')
    if len(keys) <= 4 or d <= 3:
        k = rng.choice((1, 2, 3))
        st5, q = ctx.guarded(to, lambda: x ** (-k))
        if st5 == 'ok':
            ctx.count('negative_power_checked')
            want = R.power(XI, k)
            if elem_diff(iso.mv_to_ref(q), want, tol=(1e-9 if exact else 1e-6)):
                ctx.violation('x**-k != x.inv()**k', cid + ['pow', -k], op='pow', power=-k,
                              got=show_elem(iso.mv_to_ref(q)), expected=show_elem(want), **wit)
        elif st5 == 'exc':
            ctx.note_raised(q, 'pow')


def high_precision_identity(ctx, alg, keys, vals, to):
    try:
        import mpmath
    except Exception:
        return 'unknown'
    old = mpmath.mp.prec
    mpmath.mp.prec = 400
    try:
        xm = gen.mv_from(alg, keys, [mpmath.mpf(vals[k].numerator) / vals[k].denominator for k in keys])
        st, p = ctx.guarded(to * 2, lambda: (mv_dict(xm * xm.inv()), mv_dict(xm.inv() * xm)))
        if st != 'ok':
            return 'unknown'
        for prod in p:
            for k, v in prod.items():
                if abs(mpmath.mpmathify(v) - (1 if k == 0 else 0)) > mpmath.mpf(10) ** -40:
                    return 'wrong-in-high-precision'
        return 'exact-in-high-precision'
    except Exception:
        return 'unknown'
    finally:
        mpmath.mp.prec = old

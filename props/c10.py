"""C10 - code is generated at most once per operator and key pattern."""
import random
from fractions import Fraction as Fr

from kvm import gen, ops, monitors
from kvm.compare import mv_dict

META = {
    'level': 'exploration',
    'rule': ('one case = (configuration, operator or registered function, key-pattern tuple): call 1 on a pattern that is not cached must show '
             'generation events from all three independent sources (compile/exec audit events issued from kingdon.codegen frames; entries into '
             'do_codegen/do_compile/lambdify/func_builder; growth of an operator cache or of numspace) - otherwise the monitor is blind and the '
             'case is not counted; calls 2..n with fresh operand objects and different coefficient types (int, float, Fraction, ndarray of two '
             'shapes, list of arrays, sympy symbols, mixed symbolic/numeric), interleaved with unrelated operator calls, must show zero events '
             'from all three sources. Distinct = distinct (config, operator, key pattern).'),
    'assumptions': ['sequential calls only (as stated)', 'audit events are attributed by the calling frame module kingdon.codegen'],
}
SHARD_DEADLINE = {'quick': 300, 'thorough': 3300}
KINDS = ['int', 'float', 'frac', 'array', 'array2', 'listarr', 'sympy', 'mixed', 'same-values', 'sympy-zero']
REG = ['reg_numeric', 'reg_symbolic', 'reg_nested']
ALL = ops.BINARY + ops.UNARY + REG


def floors(tier):
    f = {'distinct_nontrivial': 700 if tier == 'quick' else 60000, 'first_calls_with_generation_seen': 300, 'range_key_containers': 20,
         'repeat_calls_checked': 2000, 'interleaved_other_calls': 300}
    for k in KINDS:
        f['repeat_kind_' + k] = 100
    f['repeat_calls_that_raised_at_run_time'] = 200
    f['completed_generations_checked_for_duplicates'] = 1000
    for o in ALL:
        f['op_' + o] = 15 if tier == 'quick' else 80
    return f


def plan(tier, seed):
    rng = random.Random(f'C10-plan-{seed}')
    if tier == 'quick':
        cfgs = [{'p': 2, 'q': 0, 'r': 0}, {'p': 3, 'q': 0, 'r': 0}, {'p': 2, 'q': 0, 'r': 1}, {'p': 1, 'q': 1, 'r': 0}, {'p': 3, 'q': 0, 'r': 1},
                {'signature': [1, -1, 1]}, {'p': 2, 'q': 0, 'r': 0, 'opts': {'cse': False}}, {'p': 2, 'q': 0, 'r': 1, 'opts': {'wrapper': 'identity'}},
                {'named': '2DPGA'}, {'p': 4, 'q': 0, 'r': 0}, {'p': 2, 'q': 1, 'r': 0, 'opts': {'wrapper': 'wraps'}},
                {'p': 1, 'q': 1, 'r': 1}, {'p': 3, 'q': 1, 'r': 0}, {'p': 2, 'q': 0, 'r': 0, 'opts': {'symcls': 'sympy'}},
                {'p': 1, 'q': 0, 'r': 1}, {'p': 0, 'q': 2, 'r': 0}]
        per, nshards = 5, 16
    else:
        cfgs = gen.sig_orderings(2, 3) + gen.pqr_all(4, 4) + gen.NAMED[:2]
        cfgs += [dict(c, opts={'cse': False}) for c in rng.sample(gen.sig_orderings(2, 3), 8)]
        cfgs += [dict(c, opts={'wrapper': w}) for c in rng.sample(gen.sig_orderings(2, 3), 8) for w in ('identity', 'wraps')]
        cfgs += [gen.random_custom_cfg(rng, 3) for _ in range(8)]
        per, nshards = 30, 64
    U = [{'cfg': c, 'per_op': per} for c in cfgs]
    rng.shuffle(U)
    shards = [{'units': part} for part in gen.split(U, nshards)]
    # capacity histories: hundreds of patterns on one operator of one algebra (d >= 4 so that enough distinct small patterns exist)
    caps = [({'p': 3, 'q': 0, 'r': 1}, 300), ({'p': 4, 'q': 1, 'r': 0}, 400), ({'p': 4, 'q': 0, 'r': 0, 'opts': {'wrapper': 'identity'}}, 200), ({'p': 5, 'q': 0, 'r': 0}, 600)]
    if tier != 'quick':
        caps = caps * 4 + [({'p': 4, 'q': 1, 'r': 1}, 1500), ({'p': 6, 'q': 0, 'r': 0}, 1100)]
    for i, c in enumerate(caps):
        shards[i % len(shards)].setdefault('capacity', []).append(c)
    return shards


def values(rng, alg, keys, kind, tag):
    import numpy as np
    import sympy
    if kind == 'int':
        return [rng.randint(1, 5) for _ in keys]
    if kind == 'float':
        return [rng.randint(1, 20) / 4.0 for _ in keys]
    if kind == 'frac':
        return [Fr(rng.randint(1, 9), rng.choice((1, 2, 3))) for _ in keys]
    if kind == 'array':
        return [np.array([rng.randint(1, 9) / 2.0 for _ in range(3)]) for _ in keys]
    if kind == 'array2':
        return np.array([[[rng.randint(1, 9) / 2.0 for _ in range(3)] for _ in range(2)] for _ in keys]) if keys else []
    if kind == 'listarr':
        return [np.array([rng.randint(1, 9) / 2.0 for _ in range(2)]) for _ in keys]
    if kind == 'sympy':
        return [sympy.Symbol(f'{tag}{k}') for k in keys]
    if kind == 'sympy-zero':
        # symbolic coefficients one of which vanishes symbolically (the stored key pattern is what it is, whatever the values simplify to)
        t = sympy.Symbol(f'{tag}t')
        return [(t - t if i == 0 else sympy.Integer(0)) if i < 2 and len(keys) > 1 and i == (len(keys) - 1) % 2 else sympy.Symbol(f'{tag}{k}') for i, k in enumerate(keys)]
    if kind == 'mixed':
        return [sympy.Symbol(f'{tag}{k}') if i % 2 else rng.randint(1, 5) for i, k in enumerate(keys)]
    raise KeyError(kind)


def regfuncs(alg):
    @alg.register
    def reg_numeric(a, b):
        return (a * b).grade(1) + (a | b)

    @alg.register(symbolic=True)
    def reg_symbolic(a, b):
        return (a ^ b) - b

    @alg.register
    def inner(a, b):
        return a * b + a

    @alg.register
    def reg_nested(a, b):
        return inner(a, b) - inner(b, a)
    return {'reg_numeric': reg_numeric, 'reg_symbolic': reg_symbolic, 'reg_nested': reg_nested}


def run_shard(shard, ctx):
    ge = monitors.GenEvents().install()
    try:
        for ccfg, npat in shard.get('capacity', []):
            if not ctx.out_of_time():
                capacity_history(ctx, ge, ccfg, npat)
        for unit in shard['units']:
            cfg = unit['cfg']
            name = gen.cfg_str(cfg)
            alg = gen.make_or_skip(ctx, cfg)
            if alg is None:
                continue
            regs = regfuncs(alg)
            ctx.count('algebras')
            mark = len(ge.completed)
            for op in ALL:
                for _ in range(unit['per_op']):
                    if ctx.out_of_time():
                        ctx.count('cases_skipped_out_of_time')
                        return
                    one_case(ctx, ge, alg, regs, cfg, name, op)
            # whole-history invariant: on this algebra no (operator / registered function, key pattern) was generated twice,
            # whoever asked for it (direct call, another operator's code generation, an outer registered function)
            seen = {}
            for rec in ge.completed[mark:]:
                if rec[0] != id(alg):
                    continue
                seen[rec[1:]] = seen.get(rec[1:], 0) + 1
            ctx.count('completed_generations_checked_for_duplicates', sum(seen.values()))
            dups = [(k[1], [list(x) if not isinstance(x, int) else x for x in k[2]], n) for k, n in seen.items() if n > 1]
            if dups:
                ctx.violation('the same operator and key pattern was generated more than once on one algebra', [name, 'duplicates'], config=cfg,
                              duplicates=[[d[0], repr(d[1])[:120], d[2]] for d in dups[:8]], n_duplicates=len(dups))
    finally:
        ge.uninstall()
        for k, v in ge.evaluations.items():
            ctx.count('hook_evaluations_' + k, v)


def capacity_history(ctx, ge, cfg, npatterns):
    """One operator of one algebra used with several hundred distinct key patterns, then the earliest ones again: an entry, once
    generated, stays - however many other patterns the same operator has served since."""
    from kingdon.multivector import MultiVector
    rng = ctx.rng
    alg = gen.make_or_skip(ctx, cfg)
    if alg is None:
        return
    name = gen.cfg_str(cfg)
    canon = tuple(alg.canon2bin.values())
    opname = rng.choice(('add', 'gp', 'op', 'reverse', 'neg'))
    target = getattr(alg, opname)
    arity = 1 if opname in ops.UNARY else 2
    cid = [name, 'capacity', opname, npatterns]
    if not ctx.want(cid):
        return
    pats = []
    seen = set()
    attempts = 0
    while len(pats) < npatterns and attempts < 20 * npatterns:
        # (bounded: a unary operator of a small algebra has fewer distinct one- and two-key patterns than asked for)
        attempts += 1
        p_ = tuple(tuple(rng.sample(canon, rng.randint(1, 2))) for _ in range(arity))
        if p_ in seen:
            continue
        seen.add(p_)
        pats.append(p_)
    if len(pats) < 150:
        ctx.count('capacity_history_too_few_distinct_patterns')
        return

    def call(p_):
        return target(*[MultiVector.fromkeysvalues(alg, ks, [2 + i for i in range(len(ks))]) for ks in p_])
    mark = ge.snapshot()
    for p_ in pats:
        st, _r = ctx.guarded(30, call, p_)
        if st != 'ok':
            return
        if ctx.out_of_time():
            return
    first_pass = ge.delta(mark)
    ctx.count('capacity_histories')
    ctx.count('capacity_history_patterns', len(pats))
    ctx.case(cid)
    regenerated = []
    for p_ in pats[:12] + pats[len(pats) // 2: len(pats) // 2 + 4]:
        before, sizes = ge.snapshot(), monitors.cache_sizes(alg)
        st, _r = ctx.guarded(30, call, p_)
        d = ge.delta(before)
        after = monitors.cache_sizes(alg)
        growth = {k: after[k] - sizes.get(k, 0) for k in after if after[k] != sizes.get(k, 0)}
        ctx.count('repeat_calls_checked')
        if any(d.values()) or growth:
            regenerated.append([[list(k) for k in p_], {k: v for k, v in d.items() if v}, growth])
    if regenerated:
        ctx.violation('code generated again for a cached key pattern', cid, config=cfg, op=opname, patterns_used_in_between=len(pats),
                      regenerated=regenerated[:6], n_regenerated=len(regenerated), first_pass_events={k: v for k, v in first_pass.items() if v},
                      events=regenerated[0][1], cache_growth=regenerated[0][2], keys=regenerated[0][0], coefficient_kind='int')


def one_case(ctx, ge, alg, regs, cfg, name, op):
    rng = ctx.rng
    canon = tuple(alg.canon2bin.values())
    composite = op in ops.COMPOSITE_BIN or op in ops.COMPOSITE_UN
    arity = 1 if op in ops.UNARY else 2
    cap = 3 if composite or op in REG else 6
    if op == 'sqrt':
        nonsc = [k for k in canon if k]
        keysets = [(0, rng.choice(nonsc))] if nonsc else [(0,)]
    else:
        keysets = []
        for _ in range(arity):
            ks = gen.random_subset(rng, canon, cap, 1)
            if rng.random() < 0.3:
                ks = gen.permuted(rng, ks)
            keysets.append(ks)
    if op in ops.ELEMENTARY_BIN + ops.ELEMENTARY_UN and len(canon) <= 16 and rng.random() < 0.12:
        # a dense operand whose key container is a range (binary order), as produced by keys=range(len(alg))
        keysets = [range(len(canon)) for _ in keysets]
        ctx.count('range_key_containers')
    cid = [name, op, [list(k) for k in keysets]]
    if not ctx.want(cid):
        return
    target = regs[op] if op in REG else getattr(alg, op)
    pattern = tuple(keysets) if arity == 2 or op in REG else keysets[0]

    def call(kind, tag):
        if kind == 'raising-None':
            # coefficients on which the generated function raises at run time (arithmetic on None): the cache entry must survive that
            vals = [[None for _ in ks] for ks in keysets]
        elif kind in ('keys-as-range', 'keys-as-list'):
            # the same key pattern handed to the public constructor in another container (range where contiguous, else list)
            mvs = []
            for ks in keysets:
                tk = tuple(ks)
                cont = range(tk[0], tk[-1] + 1) if (kind == 'keys-as-range' and tk and tk == tuple(range(tk[0], tk[-1] + 1))) else list(tk)
                mvs.append(alg.multivector(keys=cont, values=[2 + i for i, _ in enumerate(tk)]))
            return target(*mvs)
        elif kind == 'same-values':
            vals = [[1 + i for i, _ in enumerate(ks)] for ks in keysets]
        else:
            vals = [values(rng, alg, ks, kind, f'{tag}{j}_') for j, ks in enumerate(keysets)]
        from kingdon.multivector import MultiVector
        # keep the key container as it is (a range stays a range): the cache is looked up with mv.keys()
        # a range of keys goes through the public constructor (which owns the normalisation of key containers)
        mvs = [alg.multivector(keys=ks, values=v if hasattr(v, 'shape') else list(v)) if isinstance(ks, range)
               else MultiVector.fromkeysvalues(alg, tuple(ks), v if hasattr(v, 'shape') else list(v)) for ks, v in zip(keysets, vals)]
        return target(*mvs)

    def call_in_thread(kind, tag):
        # the same call made from another thread that is started and joined here: strictly sequential, only the calling thread differs
        import threading
        box = {}

        def work():
            try:
                box['r'] = ('ok', call(kind, tag))
            except Exception as e:       # noqa
                box['r'] = ('exc', e)
        t = threading.Thread(target=work)
        t.start()
        t.join(60)
        if t.is_alive() or 'r' not in box:
            return 'timeout', None
        return box['r']

    def observe(kind, tag, in_thread=False):
        before, sizes = ge.snapshot(), monitors.cache_sizes(alg)
        if in_thread:
            st, out = call_in_thread(kind, tag)
        else:
            st, out = ctx.guarded(60, call, kind, tag)
        d = ge.delta(before)
        after = monitors.cache_sizes(alg)
        growth = {k: after[k] - sizes.get(k, 0) for k in after if after[k] != sizes.get(k, 0)}
        return st, out, d, growth

    cached = pattern in target
    st, out, d, growth = observe('int', 'p')
    if st == 'timeout':
        ctx.count('case_timeouts')
        return
    if st == 'exc':
        ctx.note_raised(out, op + '-first')
        if pattern not in target:
            return          # generation itself failed: nothing is cached, nothing to repeat
    if not cached:
        wrapped = d['do_codegen'] + d['do_compile']
        audit = d['audit_compile'] + d['audit_exec']
        if not (wrapped >= 1 and audit >= 1 and growth):
            ctx.count('monitor_blind_first_call')
            ctx.notes.append(f'blind: {name} {op} {keysets} events={d} growth={growth}')
            return
        ctx.count('first_calls_with_generation_seen')
    else:
        ctx.count('pattern_already_cached_by_earlier_composite')
    ctx.count('op_' + op)
    ctx.case(cid)
    ctx.distinct('operator_key_pattern_pairs_observed', (name, op, [list(k) for k in keysets]))
    if ctx.evaluations % 40 == 1:
        ctx.sample({'config': name, 'op': op, 'keys': [list(k) for k in keysets], 'first_call_events': d, 'first_call_cache_growth': growth})
    kinds = list(KINDS)
    if not any(isinstance(ks, range) for ks in keysets) and not cfg.get('opts', {}).get('graded'):
        kinds += ['keys-as-range', 'keys-as-list']
    rng.shuffle(kinds)
    kinds.insert(rng.randint(1, 3), 'raising-None')
    for j, kind in enumerate(kinds):
        if op in REG and kind in ('sympy', 'mixed', 'sympy-zero') and op != 'reg_symbolic':
            continue    # numerically registered functions are documented for numeric input; symbolic operands are another use
        if op in REG and rng.random() < 0.35:
            # another function is registered in between under a name that is already in use on this algebra (a notebook cell run again):
            # the functions registered earlier keep what they have generated
            def helper(a):
                return a + a
            st_h, _ = ctx.guarded(30, lambda: (alg.register(helper), alg.register(helper)))
            if st_h == 'ok':
                ctx.count('interleaved_reregistrations_of_a_used_name')
        if rng.random() < 0.4:
            # unrelated calls in between (may generate - not observed)
            o2 = rng.choice(ops.ELEMENTARY_BIN)
            k2 = [gen.random_subset(rng, canon, 4, 1) for _ in range(2)]
            ctx.guarded(30, lambda: getattr(alg, o2)(*[gen.mv_from(alg, ks, [1] * len(ks)) for ks in k2]))
            ctx.count('interleaved_other_calls')
        in_thread = kind not in ('raising-None', 'sympy', 'mixed', 'sympy-zero') and rng.random() < 0.3
        st, out, d, growth = observe(kind, f'q{j}', in_thread=in_thread)
        if in_thread:
            ctx.count('repeat_calls_from_another_thread')
        if st == 'timeout':
            ctx.count('case_timeouts')
            continue
        if st == 'exc':
            ctx.note_raised(out, f'{op}-{kind}')
        ctx.count('repeat_calls_checked')
        ctx.count('repeat_kind_' + kind)
        if kind == 'raising-None' and st == 'exc':
            ctx.count('repeat_calls_that_raised_at_run_time')
        if any(d.values()) or growth:
            ctx.violation('code generated again for a cached key pattern', cid + [kind], config=cfg, op=op,
                          keys=[list(k) for k in keysets], coefficient_kind=kind, events={k: v for k, v in d.items() if v},
                          cache_growth=growth, call_outcome=('raised ' + type(out).__name__) if st == 'exc' else 'returned',
                          called_from='another thread (started and joined)' if in_thread else 'main thread')

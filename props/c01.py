"""C01 - basis-blade products follow the Clifford relations of the chosen signature."""
import itertools
import random
import re

from kvm import gen
from kvm.iso import Iso, perm_parity
from kvm.compare import mv_dict, elem_diff, show_elem

META = {
    'level': 'exploration',
    'rule': ('one case = (algebra configuration, relation family); families: sign table vs first-principles reference, '
             'generator squares/anticommutation, associativity over all triples, named blade == ordered product of its '
             'vectors via the real gp, blade x blade via the real gp, Cayley table strings, permuted spellings, lazy fill order '
             '(d>6). Non-trivial = at least one sign/product was observed and compared in that family.'),
    'assumptions': ['reference sign rule in kvm/refmodel.py (textbook definition) and the relabelling in kvm/iso.py',
                    'CPython 3.12 /venv interpreter; kingdon imported from /repo working tree'],
}
SHARD_DEADLINE = {'quick': 300, 'thorough': 3000}


def floors(tier):
    return {'distinct_nontrivial': 300 if tier == 'quick' else 20000, 'pairs_vs_reference': 20000,
            'assoc_triples': 100000, 'gp_blade_products_executed': 3000, 'spellings_checked': 500,
            'lazy_pairs': 2000, 'lazy_cayley_entries': 300}


def plan(tier, seed):
    rng = random.Random(f'C01-plan-{seed}')
    if tier == 'quick':
        cfgs = gen.standard_configs(rng, tier, dmax_pqr=5, dmax_sig=4, n_custom=300, custom_dims=(3, 4, 4, 5))
        lazy = [{'signature': gen.random_sig(rng, 7)}, {'p': 4, 'q': 3, 'r': 1}]
        lazy += [gen.random_custom_cfg(rng, 7)]
        nshards = 16
    else:
        cfgs = gen.standard_configs(rng, tier, dmax_pqr=6, dmax_sig=6, n_custom=3000, custom_dims=(3, 4, 4, 5))
        for b in gen.all_custom_bases(3, 1) + gen.all_custom_bases(3, 0)[::3]:
            cfgs.append({'signature': [rng.choice((1, -1, 0)) for _ in range(3)], 'basis': b})
        lazy = []
        for i in range(96):
            d = 7 if i % 2 == 0 else 8
            lazy.append({'signature': gen.random_sig(rng, d)} if i % 4 else gen.random_custom_cfg(rng, 7))
        nshards = 64
    # graded mode: basis blades are one-hot multivectors over a complete grade
    gr = [{'p': 3, 'q': 0, 'r': 1}, {'p': 4, 'q': 0, 'r': 0}, {'p': 2, 'q': 2, 'r': 0}, {'named': '2DPGA'}, {'named': '3DPGA'}, {'p': 3, 'q': 1, 'r': 1}, {'p': 2, 'q': 0, 'r': 1}]
    gr += [gen.random_custom_cfg(rng, rng.choice((3, 4))) for _ in range(6 if tier == 'quick' else 60)]
    if tier != 'quick':
        gr += gen.pqr_all(4, 5)
    cfgs += [dict(c, opts={'graded': True}) for c in gr]
    rng.shuffle(cfgs)
    shards = [{'cfgs': part, 'lazy': []} for part in gen.split(cfgs, nshards)]
    for i, c in enumerate(lazy):
        shards[i % len(shards)]['lazy'].append(c)
    return shards


def run_shard(shard, ctx):
    for cfg in shard['cfgs']:
        if ctx.out_of_time():
            ctx.count('configs_skipped_out_of_time')
            continue
        check_config(cfg, ctx, lazy=False)
    for _ in range(6 if ctx.tier == 'quick' else 40):
        if not ctx.out_of_time():
            check_shared_numspace(ctx)
    for cfg in shard['lazy']:
        if ctx.out_of_time():
            ctx.count('configs_skipped_out_of_time')
            continue
        check_config(cfg, ctx, lazy=True)


def check_shared_numspace(ctx):
    """Two algebras of one dimension with different signatures that share one `numspace` (dataclasses.replace(alg, signature=...) or
    numspace=alg.numspace) and have a wrapper configured: blade products are taken in A, then in B, then in A again - every algebra
    keeps following its own Clifford relations."""
    import dataclasses
    from kingdon import Algebra
    rng = ctx.rng
    d = rng.choice((2, 3, 3, 4))
    sigA = gen.random_sig(rng, d)
    sigB = gen.random_sig(rng, d)
    if list(sigA) == list(sigB):
        sigB = [-s if s else 1 for s in sigA]
    how = rng.choice(('replace', 'numspace='))
    wrapper = rng.choice((gen.identity_wrapper, gen.wraps_wrapper))
    cid = ['shared-numspace', [int(s) for s in sigA], [int(s) for s in sigB], how]
    if not ctx.want(cid):
        return
    try:
        A = Algebra(signature=list(sigA), wrapper=wrapper)
        B = dataclasses.replace(A, signature=list(sigB)) if how == 'replace' else Algebra(signature=list(sigB), wrapper=wrapper, numspace=A.numspace)
        if B.numspace is not A.numspace:
            ctx.count('derived_algebra_did_not_share_numspace')
            return
        isos = {'A': Iso(A), 'B': Iso(B)}
    except Exception as e:
        ctx.note_raised(e, 'shared-numspace-construct')
        return
    ctx.count('shared_numspace_algebra_pairs')
    ctx.case(cid)
    keys = list(A.canon2bin.values())
    pairs = [(rng.choice(keys), rng.choice(keys)) for _ in range(40)] if d > 2 else list(itertools.product(keys, repeat=2))
    bad = []
    n = 0
    for phase, alg in (('A first', A), ('B after A', B), ('A after B', A), ('B again', B)):
        iso = isos[phase[0]]
        for I, J in pairs:
            try:
                got = mv_dict(alg.blades[alg.bin2canon[I]] * alg.blades[alg.bin2canon[J]])
            except Exception as e:
                ctx.note_raised(e, 'shared-numspace-gp')
                continue
            n += 1
            s, K = expected_sign(iso, I, J)
            if elem_diff(got, {K: s} if s else {}):
                bad.append([phase, alg.bin2canon[I], alg.bin2canon[J], show_elem(got), f'{s}*{alg.bin2canon[K]}'])
    ctx.count('gp_blade_products_executed', n)
    ctx.count('shared_numspace_blade_products', n)
    if bad:
        ctx.violation('blade-product wrong in an algebra that shares its numspace with another one', cid, signature_A=[int(s) for s in sigA],
                      signature_B=[int(s) for s in sigB], derived_by=how, mismatches=bad[:8], n_mismatch=len(bad))


def expected_sign(iso, I, J):
    """Sign and key of E_I * E_J for kingdon keys I, J from first principles."""
    mI, oI = iso.key2ref[I]
    mJ, oJ = iso.key2ref[J]
    s = iso.ref.bsign(mI, mJ)
    K, oK = iso.ref2key[mI ^ mJ]
    return oI * oJ * s * oK, K


def check_config(cfg, ctx, lazy):
    name = gen.cfg_str(cfg)
    alg = gen.make_or_skip(ctx, cfg)
    if alg is None:
        return
    ctx.count('algebras')
    if cfg.get('opts', {}).get('graded'):
        ctx.count('graded_mode_algebras')
    d = alg.d
    iso = Iso(alg)
    keys = list(alg.canon2bin.values())
    names = list(alg.canon2bin.keys())
    rng = ctx.rng
    ctx.sample({'config': name, 'd': d})

    # keys must be xor-closed labels of the blades they name
    for k, nm in alg.bin2canon.items():
        if alg.canon2bin.get(nm) != k:
            ctx.violation('name-key-mismatch', ['names', name], config=cfg, key=k, blade=nm)

    if lazy:
        check_lazy(cfg, alg, iso, ctx, name)
        return

    # ---- (i) sign table versus first principles ---------------------------------
    cid = ['signs', name]
    if ctx.want(cid):
        bad = []
        n = 0
        for I in keys:
            for J in keys:
                s, K = expected_sign(iso, I, J)
                got = alg.signs[I, J]
                n += 1
                if K != I ^ J or got != s:
                    bad.append([alg.bin2canon[I], alg.bin2canon[J], int(got), int(s)])
        ctx.count('pairs_vs_reference', n)
        ctx.case(cid)
        if bad:
            ctx.violation('sign-table', cid, config=cfg, mismatches=bad[:8], n_mismatch=len(bad),
                          detail='[blade_I, blade_J, kingdon sign, first-principles sign]')

    # ---- (ii) relations on observed values only -----------------------------------
    cid = ['relations', name]
    if ctx.want(cid):
        bad = []
        gens = [(k, nm) for k, nm in zip(keys, names) if len(nm) == 2]
        for k, nm in gens:
            want = int(alg.signature[int(nm[1:], 16) - alg.start_index])
            if alg.signs[k, k] != want:
                bad.append(['square', nm, int(alg.signs[k, k]), want])
        for (k1, n1), (k2, n2) in itertools.permutations(gens, 2):
            if alg.signs[k1, k2] != -alg.signs[k2, k1] or alg.signs[k1, k2] == 0:
                bad.append(['anticommute', n1, n2, int(alg.signs[k1, k2]), int(alg.signs[k2, k1])])
        ctx.count('generator_relations', len(gens) ** 2)
        ctx.case(cid)
        if bad:
            ctx.violation('generator-relations', cid, config=cfg, mismatches=bad[:8])

    cid = ['assoc', name]
    if ctx.want(cid):
        S = alg.signs
        bad = []
        n = 0
        if d <= 4 or ctx.tier == 'thorough' and d <= 6:
            triples = itertools.product(keys, repeat=3)
        else:
            triples = ((rng.choice(keys), rng.choice(keys), rng.choice(keys)) for _ in range(20000))
        for I, J, K in triples:
            n += 1
            if S[I, J] * S[I ^ J, K] != S[J, K] * S[I, J ^ K]:
                bad.append([alg.bin2canon[I], alg.bin2canon[J], alg.bin2canon[K]])
                if len(bad) > 8:
                    break
        ctx.count('assoc_triples', n)
        ctx.case(cid)
        if bad:
            ctx.violation('associativity', cid, config=cfg, triples=bad[:8])

    # ---- (iii) named blade == ordered product of its vectors, through the real gp ----
    cid = ['named-product', name]
    if ctx.want(cid) and d <= 5:
        bad = []
        n = 0
        for nm, k in alg.canon2bin.items():
            if len(nm) < 3:
                continue
            try:
                prod = alg.blades['e' + nm[1]]
                for c in nm[2:]:
                    prod = prod * alg.blades['e' + c]
                n += 1
                dd = elem_diff(mv_dict(prod), {k: 1})
            except Exception as e:
                ctx.note_raised(e, 'named-product')
                continue
            if dd:
                bad.append([nm, show_elem(mv_dict(prod))])
        ctx.count('named_products', n)
        ctx.count('gp_blade_products_executed', n)
        if n:
            ctx.case(cid)
        if bad:
            ctx.violation('named-blade-not-ordered-product', cid, config=cfg, mismatches=bad[:8])

    # ---- (iv) blade x blade through the real gp versus the reference -------------------
    cid = ['blade-gp', name]
    if ctx.want(cid):
        bad = []
        n = 0
        if d <= 4:
            pairs = list(itertools.product(keys, repeat=2))
        else:
            pairs = [(rng.choice(keys), rng.choice(keys)) for _ in range(150)]
        for I, J in pairs:
            try:
                got = mv_dict(alg.blades[alg.bin2canon[I]] * alg.blades[alg.bin2canon[J]])
            except Exception as e:
                ctx.note_raised(e, 'blade-gp')
                continue
            n += 1
            s, K = expected_sign(iso, I, J)
            dd = elem_diff(got, {K: s} if s else {})
            if dd:
                bad.append([alg.bin2canon[I], alg.bin2canon[J], show_elem(got), f'{s}*{alg.bin2canon[K]}'])
        ctx.count('gp_blade_products_executed', n)
        if n:
            ctx.case(cid)
        if bad:
            ctx.violation('blade-product', cid, config=cfg, mismatches=bad[:8], n_mismatch=len(bad))

    # ---- (v) the Cayley table is that same table -------------------------------------
    cid = ['cayley', name]
    if ctx.want(cid) and d <= 6:
        bad = []
        cay = alg.cayley
        n = 0
        for (eI, I), (eJ, J) in itertools.product(alg.canon2bin.items(), repeat=2):
            s, K = expected_sign(iso, I, J)
            want = '0' if s == 0 else ('-' if s < 0 else '') + alg.bin2canon[K]
            n += 1
            if cay.get((eI, eJ)) != want:
                bad.append([eI, eJ, cay.get((eI, eJ)), want])
        if len(cay) != len(keys) ** 2:
            bad.append(['size', len(cay)])
        ctx.count('cayley_entries', n)
        ctx.case(cid)
        if bad:
            ctx.violation('cayley', cid, config=cfg, mismatches=bad[:8], n_mismatch=len(bad))

    # ---- (vi) permuted spellings of a blade ----------------------------------------------
    cid = ['spellings', name]
    if ctx.want(cid) and d <= 5:
        bad = []
        n = 0
        for nm, k in alg.canon2bin.items():
            g = len(nm) - 1
            if g < 2:
                continue
            perms = list(itertools.permutations(nm[1:]))
            if g > 4:
                perms = rng.sample(perms, 24)
            for p in perms:
                sp = 'e' + ''.join(p)
                m, par = iso.name_to_ref(sp)
                K, oK = iso.ref2key[m]
                try:
                    got = mv_dict(alg.blades[sp])
                except Exception as e:
                    ctx.note_raised(e, 'spelling')
                    continue
                n += 1
                if elem_diff(got, {K: par * oK}):
                    bad.append([sp, show_elem(got), par * oK])
        ctx.count('spellings_checked', n)
        if n:
            ctx.case(cid)
        if bad:
            ctx.violation('spelling-parity', cid, config=cfg, mismatches=bad[:8], n_mismatch=len(bad))


def check_lazy(cfg, alg, iso, ctx, name):
    """d > 6: signs are filled lazily; the value must not depend on fill order / path."""
    rng = ctx.rng
    n = 2 ** alg.d
    keys = list(alg.canon2bin.values())
    npairs = 3000 if ctx.tier == 'quick' else 20000
    cid = ['lazy', name]
    if not ctx.want(cid):
        return
    bad = []
    seen_first = {}
    count = 0
    for t in range(npairs):
        I, J = rng.choice(keys), rng.choice(keys)
        how = rng.choice(('direct', 'product', 'direct'))
        s, K = expected_sign(iso, I, J)
        if how == 'product' and t % 10 == 0:
            try:
                got = mv_dict(alg.blades[alg.bin2canon[I]] * alg.blades[alg.bin2canon[J]])
                ctx.count('gp_blade_products_executed')
                if elem_diff(got, {K: s} if s else {}):
                    bad.append(['product', alg.bin2canon[I], alg.bin2canon[J], show_elem(got), s])
            except Exception as e:
                ctx.note_raised(e, 'lazy-product')
        got = alg.signs[I, J]
        count += 1
        if got != s or K != I ^ J:
            bad.append(['direct', alg.bin2canon[I], alg.bin2canon[J], int(got), int(s)])
        if (I, J) in seen_first and seen_first[I, J] != got:
            bad.append(['changed', I, J])
        seen_first[I, J] = got
    # associativity through the lazy table
    S = alg.signs
    nt = 0
    for _ in range(npairs):
        I, J, K = rng.choice(keys), rng.choice(keys), rng.choice(keys)
        nt += 1
        if S[I, J] * S[I ^ J, K] != S[J, K] * S[I, J ^ K]:
            bad.append(['assoc', I, J, K])
    # generators
    for j in range(alg.d):
        nm = alg.bin2canon[2 ** j]
        want = int(alg.signature[int(nm[1:], 16) - alg.start_index])
        if S[2 ** j, 2 ** j] != want:
            bad.append(['square', nm, int(S[2 ** j, 2 ** j]), want])
    if alg.d == 7:
        st, cay = ctx.guarded(120, lambda: alg.cayley)
        if st == 'ok':
            names7 = list(alg.canon2bin.items())
            nc = 0
            for _ in range(400):
                (eI, I), (eJ, J) = rng.choice(names7), rng.choice(names7)
                s, K = expected_sign(iso, I, J)
                want = '0' if s == 0 else ('-' if s < 0 else '') + alg.bin2canon[K]
                nc += 1
                if cay.get((eI, eJ)) != want:
                    bad.append(['cayley', eI, eJ, cay.get((eI, eJ)), want])
            ctx.count('cayley_entries', nc)
            ctx.count('lazy_cayley_entries', nc)
        elif st == 'exc':
            ctx.note_raised(cay, 'lazy-cayley')
    ctx.count('lazy_pairs', count)
    ctx.count('assoc_triples', nt)
    ctx.count('pairs_vs_reference', count)
    ctx.case(cid)
    if bad:
        ctx.violation('lazy-sign-table', cid, config=cfg, mismatches=bad[:8], n_mismatch=len(bad))

"""C17 - the built-in polynomial arithmetic is exact rational-function arithmetic."""
import random
from fractions import Fraction as Fr

from kvm import gen
from kvm.ring import FreePoly

META = {
    'level': 'exploration',
    'rule': ('one case = one random operation sequence (expression tree, depth <= 5) over RationalPolynomial.fromname(v) for the variable names '
             'code generation uses, integer and dyadic-float constants, + - * / unary- ** n (n in -3..4), inv(), reflected forms with plain '
             'numbers. For the root and every intermediate object: its structure (monomial lists of numer/denom) and its tosympy() are '
             'evaluated at >= 3 random rational points and compared with the value of the reference rational function (exact FreePoly '
             'numerator/denominator); `== 0` and bool() are compared with exact zero-ness of the reference function; `p == q` between '
             'produced objects being True requires equal reference functions; operands are snapshotted and must not be mutated. Divisions by '
             'the zero function are outside the domain (tree discarded by the reference). Distinct = distinct expression trees.'),
    'assumptions': ['kvm/ring.py exact polynomial arithmetic', 'sympy substitution of rationals'],
}
SHARD_DEADLINE = {'quick': 300, 'thorough': 3300}
VARS = ['a', 'a1', 'a12', 'b', 'b2', 'b12', 'c']
CONSTS = [0, 1, -1, 2, -3, 5, 0.5, -0.25, 2.0, 4]


def floors(tier):
    return {'distinct_nontrivial': 15000 if tier == 'quick' else 300000, 'objects_evaluated_structurally': 20000,
            'objects_evaluated_via_sympy': 2000, 'zero_tests_compared': 20000, 'reference_zero_functions_seen': 500,
            'equality_pairs_compared': 5000, 'equal_pairs_seen': 200, 'operand_snapshots_verified': 20000,
            'op_add': 3000, 'op_sub': 3000, 'op_mul': 3000, 'op_div': 2000, 'op_neg': 500, 'op_pow': 800, 'op_inv': 300,
            'reflected_number_ops': 1500, 'codegen_cases': 300, 'codegen_coefficients_evaluated': 2000, 'identity_cases': 3000, 'augmented_assignment_sequences': 500}


def plan(tier, seed):
    n = 16 if tier == 'quick' else 64
    per = 3000 if tier == 'quick' else 80000
    return [{'trees': per, 'codegen_cases': 40 if tier == 'quick' else 1500, 'salt': i} for i in range(n)]


# ---- reference rational functions: (num, den) FreePoly pairs -------------------------------------

class OutOfDomain(Exception):
    pass


def r_const(c):
    return (FreePoly.const(Fr(c)), FreePoly.const(1))


def r_var(v):
    return (FreePoly.var(v), FreePoly.const(1))


def r_add(x, y):
    return (x[0] * y[1] + y[0] * x[1], x[1] * y[1])


def r_neg(x):
    return (-x[0], x[1])


def r_mul(x, y):
    return (x[0] * y[0], x[1] * y[1])


def r_inv(x):
    if not x[0]:
        raise OutOfDomain
    return (x[1], x[0])


def r_pow(x, n):
    if n < 0:
        x = r_inv(x)
        n = -n
    r = r_const(1)
    for _ in range(n):
        r = r_mul(r, x)
    return r


def r_iszero(x):
    return not x[0]


def r_equal(x, y):
    return (x[0] * y[1]) == (y[0] * x[1])


def r_eval(x, env):
    den = x[1].evaluate(env)
    if den == 0:
        return None
    return Fr(x[0].evaluate(env)) / Fr(den)


def r_size(x):
    return len(x[0].t) + len(x[1].t)


# ---- evaluating kingdon's objects ----------------------------------------------------------------

def eval_poly_args(args, env):
    tot = Fr(0)
    for mono in args:
        m = Fr(mono[0])
        for v in mono[1:]:
            if isinstance(v, str):
                m *= env[v]
            else:
                m *= Fr(v)
        tot += m
    return tot


def eval_object(obj, env):
    """Value of a kingdon polynomial object at a point, from its *structure*. Returns Fraction | None (pole)."""
    from kingdon.polynomial import Polynomial, RationalPolynomial
    if isinstance(obj, RationalPolynomial):
        # numerator / denominator are Polynomial objects; a bare number in their place still denotes that number
        n = eval_poly_args(obj.numer.args, env) if hasattr(obj.numer, 'args') else Fr(obj.numer)
        dn = eval_poly_args(obj.denom.args, env) if hasattr(obj.denom, 'args') else Fr(obj.denom)
        if dn == 0:
            return None
        return n / dn
    if isinstance(obj, Polynomial):
        return eval_poly_args(obj.args, env)
    if isinstance(obj, (int, float, Fr)):
        return Fr(obj)
    raise TypeError(f'unexpected object {type(obj).__name__}')


def eval_sympy(obj, env):
    import sympy
    e = obj.tosympy() if hasattr(obj, 'tosympy') else sympy.sympify(obj)
    sub = {sympy.Symbol(k): sympy.Rational(v.numerator, v.denominator) for k, v in env.items()}
    e = sympy.sympify(e)
    # float constants are dyadic: make them exact rationals before substituting, so that the evaluation is exact
    e = e.replace(lambda t: t.is_Float, lambda t: sympy.Rational(float(t)))
    val = sympy.nsimplify(e.subs(sub), rational=True) if e.has(sympy.Float) else e.subs(sub)
    if val in (sympy.zoo, sympy.nan, sympy.oo, -sympy.oo):
        return None
    return Fr(int(val.p), int(val.q)) if val.is_Rational else Fr(float(val)).limit_denominator(10 ** 12)


def has_float_coefficient(obj):
    from kingdon.polynomial import Polynomial, RationalPolynomial
    polys = [obj.numer, obj.denom] if isinstance(obj, RationalPolynomial) else ([obj] if isinstance(obj, Polynomial) else [])
    for p_ in polys:
        for m in getattr(p_, 'args', []) or []:
            if m and isinstance(m[0], float):
                return True
    return isinstance(obj, float)


def structure(obj):
    from kingdon.polynomial import Polynomial, RationalPolynomial
    if isinstance(obj, RationalPolynomial):
        return ['RP', repr(getattr(obj.numer, 'args', obj.numer))[:160], repr(getattr(obj.denom, 'args', obj.denom))[:160]]
    if isinstance(obj, Polynomial):
        return ['P', repr(obj.args)[:200]]
    return [type(obj).__name__, repr(obj)[:80]]


def deep_snapshot(obj):
    from kingdon.polynomial import Polynomial, RationalPolynomial
    if isinstance(obj, RationalPolynomial):
        return ('RP', repr(getattr(obj.numer, 'args', obj.numer)), repr(getattr(obj.denom, 'args', obj.denom)))
    if isinstance(obj, Polynomial):
        return ('P', repr(obj.args))
    return ('N', repr(obj))


# ---- tree generation: builds kingdon object and reference in lock step ---------------------------

class Abandon(Exception):
    pass


def build(ctx, rng, depth, trace, made):
    """Returns (kingdon object, reference function, source text)."""
    from kingdon.polynomial import RationalPolynomial
    if depth == 0 or rng.random() < 0.15:
        v = rng.choice(VARS)
        return RationalPolynomial.fromname(v), r_var(v), v
    kind = rng.choices(['add', 'sub', 'mul', 'div', 'neg', 'pow', 'inv', 'numL', 'numR', 'iadd', 'imul'], [5, 5, 5, 3, 1, 1.5, 0.6, 2, 2, 1, 0.6])[0]
    x, rx, sx = build(ctx, rng, depth - 1, trace, made)
    snap_x = deep_snapshot(x)
    operands = [(x, snap_x, sx)]
    try:
        if kind in ('iadd', 'imul'):
            # accumulator idiom: acc = <identity or x>; acc op= y; acc op= z  -- the operands must stay what they were
            y, ry, sy = build(ctx, rng, rng.randint(0, depth - 1), trace, made)
            operands.append((y, deep_snapshot(y), sy))
            start = rng.choice(('identity', 'x', 'x-times-one', 'plus-x'))
            if kind == 'iadd':
                acc = {'identity': 0, 'x': x, 'x-times-one': x * 1, 'plus-x': +x}[start]
                racc = r_const(0) if start == 'identity' else rx
                acc += y
                racc = r_add(racc, ry)
                acc += x
                racc = r_add(racc, rx)
                src = f'(acc={start}; acc += {sy}; acc += {sx})'
            else:
                acc = {'identity': 1, 'x': x, 'x-times-one': x * 1, 'plus-x': +x}[start]
                racc = r_const(1) if start == 'identity' else rx
                acc *= y
                racc = r_mul(racc, ry)
                acc *= x
                racc = r_mul(racc, rx)
                src = f'(acc={start}; acc *= {sy}; acc *= {sx})'
            obj, ref = acc, racc
            ctx.count('augmented_assignment_sequences')
            kind = 'add' if kind == 'iadd' else 'mul'
        elif kind in ('add', 'sub', 'mul', 'div'):
            y, ry, sy = build(ctx, rng, rng.randint(0, depth - 1), trace, made)
            operands.append((y, deep_snapshot(y), sy))
            if kind == 'add':
                ref, src, obj = r_add(rx, ry), f'({sx} + {sy})', None
                obj = x + y
            elif kind == 'sub':
                ref, src = r_add(rx, r_neg(ry)), f'({sx} - {sy})'
                obj = x - y
            elif kind == 'mul':
                ref, src = r_mul(rx, ry), f'({sx} * {sy})'
                obj = x * y
            else:
                ref, src = r_mul(rx, r_inv(ry)), f'({sx} / {sy})'
                obj = x / y
        elif kind == 'neg':
            ref, src = r_neg(rx), f'(-{sx})'
            obj = -x
        elif kind == 'pow':
            n = rng.choice((-3, -2, -1, 1, 2, 2, 3, 4, 0))
            ref, src = r_pow(rx, n), f'({sx} ** {n})'
            obj = x ** n
        elif kind == 'inv':
            ref, src = r_inv(rx), f'({sx}).inv()'
            obj = x.inv()
        else:
            c = rng.choice(CONSTS)
            o = rng.choice('+-*/')
            if o == '/' and kind == 'numR':
                # x / c is computed as x * (1/c) in floating point: keep 1/c exactly representable (dyadic), otherwise the
                # arithmetic is inexact by construction and 'exact zero test' is not a meaningful demand
                c = rng.choice((1, -1, 2, 4, 0.5, -0.25, 2.0, -8))
            ctx.count('reflected_number_ops' if kind == 'numL' else 'number_right_ops')
            rc = r_const(c)
            if kind == 'numL':
                src = f'({c!r} {o} {sx})'
                ref = {'+': lambda: r_add(rc, rx), '-': lambda: r_add(rc, r_neg(rx)), '*': lambda: r_mul(rc, rx),
                       '/': lambda: r_mul(rc, r_inv(rx))}[o]()
                obj = {'+': lambda: c + x, '-': lambda: c - x, '*': lambda: c * x, '/': lambda: c / x}[o]()
            else:
                src = f'({sx} {o} {c!r})'
                ref = {'+': lambda: r_add(rx, rc), '-': lambda: r_add(rx, r_neg(rc)), '*': lambda: r_mul(rx, rc),
                       '/': lambda: r_mul(rx, r_inv(rc))}[o]()
                obj = {'+': lambda: x + c, '-': lambda: x - c, '*': lambda: x * c, '/': lambda: x / c}[o]()
            kind = {'+': 'add', '-': 'sub', '*': 'mul', '/': 'div'}[o]
    except OutOfDomain:
        raise
    except ZeroDivisionError as e:
        ctx.note_raised(e, kind)
        raise Abandon
    except Exception as e:
        ctx.note_raised(e, kind)
        raise Abandon
    ctx.count('op_' + kind)
    if r_size(ref) > 400:
        raise Abandon
    # operands must not have been mutated by the operation
    for o_, snap, s_ in operands:
        ctx.count('operand_snapshots_verified')
        if deep_snapshot(o_) != snap:
            trace.append(('mutation', s_, src, snap, deep_snapshot(o_)))
    made.append((obj, ref, src))
    return obj, ref, src


def run_shard(shard, ctx):
    rng = ctx.rng
    for t in range(shard.get('codegen_cases', 0)):
        if ctx.out_of_time():
            break
        codegen_case(ctx, rng)
    for t in range(shard['trees']):
        if ctx.out_of_time():
            ctx.count('trees_skipped_out_of_time')
            break
        one_tree(ctx, rng)
        if t % 6 == 0:
            polynomial_tree(ctx, rng)


CODEGEN_OPS = ['sw', 'proj', 'normsq', 'inv', 'outerexp', 'outersin', 'outercos', 'gp*gp', 'polarity']


def codegen_case(ctx, rng):
    """The polynomials that real code generation produces: run kingdon's own symbolic derivation of a composite operator on
    multivectors with RationalPolynomial coefficients (exactly what OperatorDict.__getitem__ does) and evaluate every resulting
    coefficient object structurally at random rational points against the reference model's value of the operator."""
    from kingdon.polynomial import RationalPolynomial
    import kingdon.codegen as cg
    from kvm import gen, ops
    from kvm.iso import Iso
    cfg = rng.choice(gen.sig_orderings(2, 3) + gen.pqr_all(4, 4)[::3] + [{'named': '2DPGA'}])
    alg = gen.make_or_skip(ctx, cfg)
    if alg is None:
        return
    iso = Iso(alg)
    canon = tuple(alg.canon2bin.values())
    op = rng.choice(CODEGEN_OPS)
    arity = 2 if op in ('sw', 'proj', 'gp*gp') else 1
    cap = 3 if alg.d >= 4 else 4
    keysets = []
    for _ in range(arity):
        ks = gen.random_subset(rng, canon, cap, 1)
        if rng.random() < 0.3:
            ks = gen.permuted(rng, ks)
        keysets.append(ks)
    cid = ['codegen', gen.cfg_str(cfg), op, [list(k) for k in keysets]]
    if not ctx.want(cid):
        return
    mvs = [alg.multivector(name=nm, keys=ks, symbolcls=RationalPolynomial.fromname) for nm, ks in zip('ab', keysets)]

    def derive():
        if op == 'inv':
            num, denom = cg.codegen_inv(mvs[0], symbolic=True)
            return num, denom
        if op == 'gp*gp':
            return (mvs[0] * mvs[1]) * mvs[0], None
        return getattr(cg, 'codegen_' + op)(*mvs), None
    st, out = ctx.guarded(30, derive)
    if st != 'ok':
        if st == 'exc':
            ctx.note_raised(out, 'codegen-' + op)
        return
    res, denom = out
    items = dict(res.items()) if hasattr(res, 'items') else dict(res)
    ctx.count('codegen_cases')
    ctx.case(cid)
    for attempt in range(3):
        env = {}
        valmaps = []
        for nm, ks in zip('ab', keysets):
            vm = {}
            for k in ks:
                v = Fr(rng.randint(-9, 9), rng.randint(1, 4))
                env[f'{nm}{alg.bin2canon[k][1:]}'] = v
                vm[k] = v
            valmaps.append(vm)
        refs = [iso.to_ref(vm.items()) for vm in valmaps]
        try:
            refop = {'gp*gp': None}.get(op, op)
            want = iso.ref.gp(iso.ref.gp(refs[0], refs[1]), refs[0]) if op == 'gp*gp' else ops.ref_apply(iso, op, *refs)
        except ops.NoReference:
            continue
        try:
            got = {k: eval_object(v, env) for k, v in items.items()}
            if denom is not None:
                dv = eval_object(denom, env)
                if dv in (None, 0):
                    continue
                got = {k: v / dv for k, v in got.items()}
        except Exception as e:
            ctx.note_raised(e, 'codegen-structure')
            return
        if any(v is None for v in got.values()):
            continue
        ctx.count('codegen_coefficients_evaluated', len(got))
        from kvm.compare import elem_diff, show_elem
        # derivations divide by small integers through floats (v / j -> v * (1/j)), so 1/6 is a float constant: compare to 1e-9
        bad = elem_diff({k: float(v) for k, v in iso.to_ref(got.items()).items()}, {k: float(v) for k, v in want.items()})
        if bad:
            ctx.violation('polynomial produced by code generation denotes a different function', cid, config=cfg, op=op,
                          keys=[list(k) for k in keysets], point={k: str(v) for k, v in env.items()},
                          got=show_elem({k: iso.to_ref(got.items()).get(k, 0) for k in bad[:4]}), expected=show_elem({k: want.get(k, 0) for k in bad[:4]}),
                          objects={str(k): structure(v) for k, v in list(items.items())[:4]})
            return


def one_tree(ctx, rng):
    trace, made = [], []
    depth = rng.randint(1, 5)
    try:
        st, out = ctx.guarded(10, build, ctx, rng, depth, trace, made)
    except Exception:
        return
    if st == 'timeout':
        return
    if st == 'exc':
        if isinstance(out, OutOfDomain):
            ctx.count('outside_domain_discarded')
        elif isinstance(out, Abandon):
            ctx.count('trees_abandoned_after_raise_or_size')
        else:
            ctx.note_raised(out, 'build')
        if not made:
            return
    if not made:
        return
    root_src = made[-1][2]
    cid = ['tree', root_src]
    if not ctx.want(cid):
        return
    ctx.case(cid)
    if ctx.evaluations % 2500 == 1:
        ctx.sample({'expression': root_src, 'object': structure(made[-1][0])})
    for m in trace:
        ctx.violation('an operand was mutated by an operation', cid + ['mutation'], operand=m[1], operation=m[2], before=m[3][:200], after=m[4][:200])
    # check the root and one random intermediate object
    picks = [made[-1]] + ([rng.choice(made)] if len(made) > 1 else [])
    for obj, ref, src in picks:
        check_object(ctx, rng, obj, ref, src, cid)
    # algebraic identities: the same (zero) function reached along different computation paths must test as zero
    if len(made) >= 2 and rng.random() < 0.3:
        identity_cases(ctx, rng, made, cid)
    # equality between produced objects
    if len(made) >= 2:
        for _ in range(3):
            (o1, r1, s1), (o2, r2, s2) = rng.sample(made, 2)
            try:
                eq = bool(o1 == o2)
            except Exception as e:
                ctx.note_raised(e, 'eq')
                continue
            ctx.count('equality_pairs_compared')
            if eq:
                ctx.count('equal_pairs_seen')
                if not r_equal(r1, r2):
                    ctx.violation('== equates objects denoting different functions', cid + ['eq', s1, s2], left=s1, right=s2,
                                  left_object=structure(o1), right_object=structure(o2))


def identity_cases(ctx, rng, made, cid):
    """P*Q - Q*P, (P+Q)*R - (P*R + Q*R), (P*Q)*R - P*(Q*R), (P+Q)**2 - (P*P + 2*P*Q + Q*Q): identically zero functions built from
    sub-objects of the tree (and 1 + P style shifts, which mix degrees); zero tests, == and the denoted value are all checked."""
    small = [m for m in made if r_size(m[1]) <= 8]
    if len(small) < 2:
        return
    (P, rP, sP), (Q, rQ, sQ) = rng.sample(small, 2)
    (R, rR, sR) = rng.choice(small)
    if rng.random() < 0.5:
        c = rng.choice((1, 2, -1, 0.5))
        try:
            P, rP, sP = c + P, r_add(r_const(c), rP), f'({c!r} + {sP})'
        except Exception as e:
            ctx.note_raised(e, 'identity-shift')
            return
    which = rng.choice(('commute', 'distribute', 'associate', 'square', 'sub-self', 'power'))
    try:
        if which == 'commute':
            lhs, rhs, src = P * Q, Q * P, f'({sP})*({sQ}) - ({sQ})*({sP})'
            rl, rr = r_mul(rP, rQ), r_mul(rQ, rP)
        elif which == 'distribute':
            lhs, rhs, src = (P + Q) * R, P * R + Q * R, f'(({sP})+({sQ}))*({sR}) - (({sP})*({sR}) + ({sQ})*({sR}))'
            rl, rr = r_mul(r_add(rP, rQ), rR), r_add(r_mul(rP, rR), r_mul(rQ, rR))
        elif which == 'associate':
            lhs, rhs, src = (P * Q) * R, P * (Q * R), f'(({sP})*({sQ}))*({sR}) - ({sP})*(({sQ})*({sR}))'
            rl, rr = r_mul(r_mul(rP, rQ), rR), r_mul(rP, r_mul(rQ, rR))
        elif which == 'square':
            lhs, rhs, src = (P + Q) ** 2, P * P + 2 * (P * Q) + Q * Q, f'(({sP})+({sQ}))**2 - expansion'
            rl, rr = r_pow(r_add(rP, rQ), 2), r_add(r_add(r_mul(rP, rP), r_mul(r_const(2), r_mul(rP, rQ))), r_mul(rQ, rQ))
        elif which == 'power':
            n_ = rng.choice((2, 3, -2))
            M = P * Q
            rM = r_mul(rP, rQ)
            lhs = M ** n_
            rhs = M * M if abs(n_) == 2 else M * M * M
            rr = r_pow(rM, abs(n_))
            if n_ < 0:
                rhs = 1 / rhs
                rr = r_inv(rr)
            rl = r_pow(rM, n_)
            src = f'(({sP})*({sQ}))**{n_} - repeated product'
        else:
            lhs, rhs, src = P + Q, Q + P, f'(({sP})+({sQ})) - (({sQ})+({sP}))'
            rl, rr = r_add(rP, rQ), r_add(rQ, rP)
        diff = lhs - rhs
    except Exception as e:
        ctx.note_raised(e, 'identity-' + which)
        return
    rdiff = r_add(rl, r_neg(rr))
    if r_size(rdiff) > 300 or r_size(rl) > 150:
        return
    ctx.count('identity_cases')
    ctx.count('identity_' + which)
    icid = cid + ['identity', which, src]
    check_object(ctx, rng, diff, rdiff, src, icid)
    check_object(ctx, rng, lhs, rl, src + ' [lhs]', icid)
    try:
        eq = bool(lhs == rhs)
        ctx.count('equality_pairs_compared')
        if eq:
            ctx.count('equal_pairs_seen')
            if not r_equal(rl, rr):
                ctx.violation('== equates objects denoting different functions', icid + ['eq'], left=src, left_object=structure(lhs), right_object=structure(rhs))
    except Exception as e:
        ctx.note_raised(e, 'identity-eq')


def poly_build(rng, depth, made):
    """Random expression over kingdon.polynomial.Polynomial objects (the class underneath RationalPolynomial, public and usable on its
    own): returns (object, reference pair, source text)."""
    from kingdon.polynomial import Polynomial
    if depth == 0 or rng.random() < 0.22:
        if rng.random() < 0.7:
            v = rng.choice(VARS)
            out = (Polynomial.fromname(v), r_var(v), v)
        else:
            c = rng.choice([0, 1, -1, 2, -3, 5])
            out = (Polynomial(c), r_const(c), f'P({c})')
        made.append(out)
        return out
    kind = rng.choice(['add', 'sub', 'sub', 'mul', 'neg', 'pow', 'radd', 'rsub', 'rmul', 'numsub', 'selfsub', 'mulzero', 'cancel', 'zeroplus',
                       'nearcancel', 'iadd'])
    x, rx, sx = poly_build(rng, depth - 1, made)
    if kind == 'nearcancel':
        # exact coefficients (big integers, fractions) that cancel down to one part in 10^15 .. 10^18: the small difference is the value
        from fractions import Fraction as _F
        big = rng.choice([10 ** 17, 3 * 10 ** 15, 2 ** 60, 10 ** 30])
        c1, c2 = ((big + 1, big) if rng.random() < 0.6 else (_F(1, 3) + _F(1, 10 ** 18), _F(1, 3)))
        out = (c1 * x - c2 * x, r_mul(r_const(c1 - c2), rx), f'({c1} * {sx} - {c2} * {sx})')
        made.append(out)
        return out
    if kind == 'iadd':
        # accumulator idiom on Polynomial objects: the operands must denote afterwards what they denoted before
        y, ry, sy = poly_build(rng, depth - 1, made)
        start = rng.choice(('zero', 'x', 'copy'))
        acc = {'zero': 0, 'x': x, 'copy': Polynomial(x)}[start]
        racc = r_const(0) if start == 'zero' else rx
        if start == 'zero':
            acc += x
            racc = rx
        acc += y
        racc = r_add(racc, ry)
        acc += x
        racc = r_add(racc, rx)
        out = (acc, racc, f'(acc={start}; acc += ..{sy}; acc += {sx})')
        made.append((x, rx, sx + ' [after being used in +=]'))
        made.append((y, ry, sy + ' [after being used in +=]'))
        made.append(out)
        return out
    if kind == 'zeroplus':
        # the zero polynomial built from the number 0 as LEFT operand of a sum, then multiplied and cancelled: no term may survive
        y, ry, sy = poly_build(rng, depth - 1, made)
        z = Polynomial(0)
        out = ((z + x) * y - x * y, r_const(0), f'((P(0) + {sx}) * {sy} - {sx} * {sy})')
        made.append(((z + x), rx, f'(P(0) + {sx})'))
        made.append(out)
        return out
    if kind in ('add', 'sub', 'mul'):
        y, ry, sy = poly_build(rng, depth - 1, made)
        if kind == 'add':
            out = (x + y, r_add(rx, ry), f'({sx} + {sy})')
        elif kind == 'sub':
            out = (x - y, r_add(rx, r_neg(ry)), f'({sx} - {sy})')
        else:
            out = (x * y, r_mul(rx, ry), f'({sx} * {sy})')
    elif kind == 'neg':
        out = (-x, r_neg(rx), f'(-{sx})')
    elif kind == 'pow':
        n = rng.randint(1, 3)
        out = (x ** n, r_pow(rx, n), f'({sx} ** {n})')
    elif kind in ('radd', 'rsub', 'rmul', 'numsub'):
        c = rng.choice([0, 1, -1, 2, -3, 4])
        if kind == 'radd':
            out = (c + x, r_add(r_const(c), rx), f'({c} + {sx})')
        elif kind == 'rsub':
            out = (c - x, r_add(r_const(c), r_neg(rx)), f'({c} - {sx})')
        elif kind == 'numsub':
            out = (x - c, r_add(rx, r_neg(r_const(c))), f'({sx} - {c})')
        else:
            out = (c * x, r_mul(r_const(c), rx), f'({c} * {sx})')
    elif kind == 'selfsub':
        # an object that denotes zero without being the literal empty polynomial, used as an operand further up
        out = (x - x, r_add(rx, r_neg(rx)), f'({sx} - {sx})')
    elif kind == 'mulzero':
        out = (x * 0, r_mul(rx, r_const(0)), f'({sx} * 0)')
    else:
        one = Polynomial(1)
        out = ((x + one) * (x - one) - x * x + one, r_const(0), f'(({sx} + 1) * ({sx} - 1) - {sx} * {sx} + 1)')
    made.append(out)
    return out


def polynomial_tree(ctx, rng):
    from kingdon.polynomial import Polynomial
    made = []
    try:
        obj, ref, src = poly_build(rng, rng.randint(1, 4), made)
    except OutOfDomain:
        return
    except Exception as e:
        ctx.note_raised(e, 'polynomial-tree')
        return
    cid = ['polynomial-level', src]
    if not ctx.want(cid):
        return
    ctx.count('polynomial_level_trees')
    ctx.case(cid, nontrivial=len(made) > 1)
    for o, r, s_ in made[-6:]:
        if isinstance(o, Polynomial):
            ctx.count('polynomial_level_objects_checked')
            check_object(ctx, rng, o, r, s_, cid)


def check_object(ctx, rng, obj, ref, src, cid):
    from kingdon.polynomial import Polynomial, RationalPolynomial
    iszero = r_iszero(ref)
    if iszero:
        ctx.count('reference_zero_functions_seen')
    # zero tests
    try:
        eq0 = bool(obj == 0)
        truth = bool(obj)
        ctx.count('zero_tests_compared')
        if eq0 != iszero or truth == iszero:
            residue = False
            if iszero and has_float_coefficient(obj):
                # float coefficients: once magnitudes leave the 53-bit range the arithmetic rounds, and an identically zero function can be
                # left with a residue that is tiny relative to the object's own scale. Judge only a decisively non-zero object.
                residue = True
                # (a) coefficients: a residue of rounding is tiny next to the coefficients that did not cancel (those of the denominator)
                ncoef = [abs(float(m[0])) for m in getattr(getattr(obj, 'numer', obj), 'args', []) if m]
                dcoef = [abs(float(m[0])) for m in getattr(getattr(obj, 'denom', None), 'args', []) if m] or [1.0]
                coefficient_residue = bool(ncoef) and max(ncoef) <= 1e-6 * max(1.0, max(dcoef))
                # (b) values: tiny at random points
                for _ in range(0 if coefficient_residue else 3):
                    env = {v: Fr(rng.randint(-9, 9), rng.randint(1, 3)) for v in VARS}
                    try:
                        val = eval_object(obj, env)
                        scale = max([abs(float(m[0])) for m in getattr(getattr(obj, 'denom', None), 'args', [[1]]) if m] + [1.0])
                        if val is not None and abs(float(val)) > 1e-7:
                            residue = False
                    except Exception:
                        pass
            if residue:
                ctx.count('float_rounding_residues_in_zero_tests_recorded_not_judged')
            else:
                ctx.violation('zero test disagrees with the function denoted', cid + ['zero', src], expression=src, object=structure(obj),
                              reference_is_zero=iszero, eq0=eq0, truthiness=truth)
    except Exception as e:
        ctx.note_raised(e, 'zero-test')
    # values at random rational points
    if iszero and has_float_coefficient(obj):
        ncoef = [abs(float(m[0])) for m in getattr(getattr(obj, 'numer', obj), 'args', []) if m]
        dcoef = [abs(float(m[0])) for m in getattr(getattr(obj, 'denom', None), 'args', []) if m] or [1.0]
        if ncoef and max(ncoef) <= 1e-6 * max(1.0, max(dcoef)):
            ctx.count('float_rounding_residues_in_value_checks_recorded_not_judged')
            return
    variables = sorted(ref[0].variables() | ref[1].variables() | set(VARS))
    npts = 0
    for attempt in range(8):
        if npts >= 3:
            break
        env = {v: Fr(rng.randint(-50, 50), rng.randint(1, 7)) for v in variables}
        want = r_eval(ref, env)
        if want is None:
            continue
        try:
            got = eval_object(obj, env)
        except Exception as e:
            ctx.note_raised(e, 'structure')
            if len(ctx.notes) < 4:
                ctx.notes.append(f'structure not evaluable: {type(e).__name__}: {e} | expression {src[:200]} | object {repr(obj)[:300]}')
            return
        if got is None:
            # the object has a pole where the reference function is finite: a spurious common factor vanished here; try another point
            ctx.count('object_pole_at_regular_point')
            continue
        npts += 1
        ctx.count('objects_evaluated_structurally')
        if got != want and abs(got - want) > Fr(1, 10 ** 9) * max(1, abs(want)):
            ctx.violation('object denotes a different rational function', cid + ['value', src], expression=src, object=structure(obj),
                          point={k: str(v) for k, v in env.items()}, got=str(got), expected=str(want))
            return
        bare = isinstance(obj, RationalPolynomial) and not (hasattr(obj.numer, 'args') and hasattr(obj.denom, 'args'))
        if bare:
            ctx.count('objects_with_a_bare_number_as_numerator_or_denominator')
        if npts == 1 and (bare or rng.random() < 0.12) and isinstance(obj, (Polynomial, RationalPolynomial)):
            try:
                gs = eval_sympy(obj, env)
            except Exception as e:
                ctx.note_raised(e, 'tosympy')
                gs = 'skip'
                # the operators returned this object and it denotes the right function at this point (checked above from its structure):
                # "conversion to sympy preserves the function" has no value to offer here
                ctx.violation('tosympy() raises on an object returned by the operators', cid + ['sympy-raises', src], expression=src, object=structure(obj),
                              error=f'{type(e).__name__}: {str(e)[:160]}', value_from_structure=str(got))
                return
            if gs != 'skip' and gs is not None:
                ctx.count('objects_evaluated_via_sympy')
                if gs != want and abs(gs - want) > Fr(1, 10 ** 9) * max(1, abs(want)):
                    ctx.violation('tosympy() denotes a different function', cid + ['sympy', src], expression=src, object=structure(obj),
                                  point={k: str(v) for k, v in env.items()}, got=str(gs), expected=str(want))
                    return

"""C13 - algebra options change speed, never results."""
import itertools
import random
from fractions import Fraction as Fr

from kvm import gen, ops
from kvm.compare import elem_diff, show_elem, mv_dict

META = {
    'level': 'exploration',
    'rule': ('one case = (signature, operator, grade-block key patterns, rational values, option setting): the same call is executed in the '
             'default algebra and in algebras differing only in cse / graded / codegen_symbolcls=sympy.Symbol / wrapper (identity, wraps-style) / '
             'pretty_blade; results must be equal elements; in graded mode a call that succeeds by default must succeed and every result must '
             'store complete grades (keys == indices_for_grades[grades]). Distinct = distinct (signature, op, key patterns, option setting).'),
    'assumptions': ['the default-option algebra is the reference for the other option settings (differential), its own correctness is C02-C07'],
}
SHARD_DEADLINE = {'quick': 400, 'thorough': 3400}
CASE_TIMEOUT = {'quick': 30, 'thorough': 120}
VARIANTS = {
    'cse=False': {'cse': False},
    'graded': {'graded': True},
    'graded,cse=False': {'graded': True, 'cse': False},
    'sympy-symbols': {'symcls': 'sympy'},
    'wrapper=identity': {'wrapper': 'identity'},
    'wrapper=wraps': {'wrapper': 'wraps'},
    'pretty_blade': {'pretty_blade': 'E'},
}
ALLOPS = ops.BINARY + ops.UNARY
# multi-step expressions: intermediate results (with whatever zeros / key sets the option setting produces) feed the next operator
EXPRS = {
    '(a*b).grade(2)*c': lambda a, b, c, d: (a * b).grade(2) * c,
    '(a^b)|c': lambda a, b, c, d: (a ^ b) | c,
    '(a*b).grade(1,2)+c': lambda a, b, c, d: (a * b).grade(1, 2) + c,
    '(a+b).normsq()': lambda a, b, c, d: (a + b).normsq(),
    '~(a*b)-c*a': lambda a, b, c, d: ~(a * b) - c * a,
    '(a>>b).grade(d-1)^c': lambda a, b, c, d: (a >> b).grade(max(d - 1, 0)) ^ c,
    '(a*b).hodge()&c': lambda a, b, c, d: (a * b).hodge() & c,
    '(a.cp(b))*(a.acp(b))': lambda a, b, c, d: a.cp(b) * a.acp(b),
    '((a*b).grade(0,2)).inv()*c': lambda a, b, c, d: ((a * b).grade(0, 2)).inv() * c,
}
# the same kind of expression compiled with register(symbolic=True): its arithmetic runs on the configured symbol class at generation time
REG_SRC = {
    'reg:(2-a)*b': 'def rs1(a, b, c):\n    return (2 - a) * b\n',
    'reg:1-a*b+c': 'def rs2(a, b, c):\n    return 1 - a * b + c\n',
    'reg:(a-3)^(b+c)': 'def rs3(a, b, c):\n    return (a - 3) ^ (b + c)\n',
    'reg:(1-a)/2+b*0.5': 'def rs4(a, b, c):\n    return (1 - a) / 2 + b * 0.5\n',
    'reg:(a|b)*c-(-2+c)': 'def rs5(a, b, c):\n    return (a | b) * c - (-2 + c)\n',
    # division by / inverse of a one-coefficient operand (monomial over monomial: common factors are cancelled symbolically)
    'reg:a/c.grade(0)+b': 'def rs6(a, b, c):\n    return a / c.grade(0) + b\n',
    'reg:(a*b.grade(0).inv())^c': 'def rs7(a, b, c):\n    return (a * b.grade(0).inv()) ^ c\n',
    'reg:c.grade(0)*a*c.grade(0).inv()': 'def rs8(a, b, c):\n    return c.grade(0) * a * c.grade(0).inv() - b\n',
}
_REG_CACHE = {}


def reg_expr(alg, en):
    key = (id(alg), en)
    if key not in _REG_CACHE:
        ns = {}
        exec(REG_SRC[en], ns)
        fn = [v for k, v in ns.items() if k.startswith('rs')][0]
        _REG_CACHE[key] = alg.register(symbolic=True)(fn)
    return _REG_CACHE[key]


def floors(tier):
    f = {'distinct_nontrivial': 2500 if tier == 'quick' else 40000, 'graded_results_checked_complete': 500,
         'graded_degenerate_cases': 150, 'sympy_symbol_cases': 60}
    f['multi_step_expressions'] = 150
    f['extreme_grade_cases_d_ge_7'] = 100
    f['permuted_order_under_option'] = 300
    for v in VARIANTS:
        f['variant_' + v] = 60 if v == 'sympy-symbols' else 300
    for o in ALLOPS:
        f['op_' + o] = 40 if tier == 'quick' else 500
    return f


def plan(tier, seed):
    rng = random.Random(f'C13-plan-{seed}')
    U = []
    if tier == 'quick':
        for c in gen.pqr_all(1, 3):
            U.append({'cfg': c, 'per_op': 2, 'sympy': gen.cfg_dim(c) <= 2})
        for c in rng.sample(gen.pqr_all(4, 4), 4):
            U.append({'cfg': c, 'per_op': 1, 'sympy': False, 'elementary_only': True})
        for c in ({'p': 3, 'q': 0, 'r': 1}, {'p': 4, 'q': 0, 'r': 0}, {'p': 2, 'q': 1, 'r': 1}):
            U.append({'cfg': c, 'per_op': 2, 'sympy': False, 'composite_only': True})
        U.append({'cfg': {'signature': [1, 0, -1]}, 'per_op': 2, 'sympy': False})
        # algebras built through the alternative constructor (options are forwarded by Algebra.fromname), and a custom basis
        U.append({'cfg': {'named': '2DPGA'}, 'per_op': 2, 'sympy': False})
        U.append({'cfg': {'named': '3DPGA'}, 'per_op': 1, 'sympy': False, 'elementary_only': True})
        U.append({'cfg': gen.random_custom_cfg(rng, 3), 'per_op': 1, 'sympy': False})
        # above six dimensions (lazy sign table; eight grades and more): scalars, vectors, pseudovectors and pseudoscalars
        for c in ({'p': 7, 'q': 0, 'r': 0}, {'p': 8, 'q': 0, 'r': 0}, {'p': 6, 'q': 1, 'r': 1}):
            dd = gen.cfg_dim(c)
            U.append({'cfg': c, 'per_op': 5, 'sympy': False, 'elementary_only': True, 'grades_pool': [0, 1, dd - 1, dd]})
        nshards = 16
    else:
        for c in gen.pqr_all(1, 3) + gen.sig_orderings(2, 3)[::3]:
            U.append({'cfg': c, 'per_op': 40, 'sympy': gen.cfg_dim(c) <= 2})
            if gen.cfg_dim(c) == 3:
                U.append({'cfg': c, 'per_op': 2, 'sympy': True, 'sympy_sparse_only': True})
        for c in gen.pqr_all(4, 4):
            U.append({'cfg': c, 'per_op': 24, 'sympy': False, 'elementary_only': True})
            U.append({'cfg': c, 'per_op': 4, 'sympy': False})
        U.append({'cfg': {'named': '2DPGA'}, 'per_op': 30, 'sympy': False})
        U.append({'cfg': {'named': '3DPGA'}, 'per_op': 20, 'sympy': False, 'elementary_only': True})
        U.append({'cfg': {'named': 'STAP'}, 'per_op': 10, 'sympy': False, 'elementary_only': True})
        for _ in range(10):
            U.append({'cfg': gen.random_custom_cfg(rng, rng.choice((2, 3, 3))), 'per_op': 10, 'sympy': False})
        for c in gen.pqr_all(7, 7)[::4] + gen.pqr_all(8, 8)[::6] + [{'p': 9, 'q': 0, 'r': 0}]:
            dd = gen.cfg_dim(c)
            U.append({'cfg': c, 'per_op': 12, 'sympy': False, 'elementary_only': True, 'grades_pool': [0, 1, dd - 1, dd]})
        nshards = 64
    rng.shuffle(U)
    return [{'units': part} for part in gen.split(U, nshards)]


def run_shard(shard, ctx):
    for unit in shard['units']:
        cfg = unit['cfg']
        name = gen.cfg_str(cfg)
        base = gen.make_or_skip(ctx, cfg)
        if base is None:
            continue
        algs = {}
        for vn, opts in VARIANTS.items():
            if vn == 'sympy-symbols' and not unit.get('sympy'):
                continue
            a_ = gen.make_or_skip(ctx, dict(cfg, opts=opts))
            if a_ is not None:
                algs[vn] = a_
        ctx.count('signatures')
        if base.d <= 3 or unit.get('composite_only'):
            for en in list(EXPRS) + (list(REG_SRC) if base.d <= 3 else []):
                for _ in range(2 if ctx.tier == 'quick' else 6):
                    if ctx.out_of_time():
                        return
                    expr_case(ctx, base, algs, cfg, name, en)
        for op in ALLOPS:
            if unit.get('elementary_only') and op not in ops.ELEMENTARY_BIN + ops.ELEMENTARY_UN:
                ctx.count('op_' + op, 0)
                continue
            if unit.get('composite_only') and op in ops.ELEMENTARY_BIN + ops.ELEMENTARY_UN:
                continue
            for _ in range(unit['per_op']):
                if ctx.out_of_time():
                    ctx.count('cases_skipped_out_of_time')
                    return
                one_case(ctx, base, algs, cfg, name, op, unit)


def grade_block_keys(alg, rng, op, pool=None):
    d = alg.d
    if pool:
        # d >= 7: complete grades are only affordable at both ends of the grade range (0, 1, d-1, d)
        gs = tuple(sorted(rng.sample(pool, rng.randint(1, 2))))
        return gs, alg.indices_for_grades[gs]
    composite = op in ops.COMPOSITE_BIN or op in ops.COMPOSITE_UN
    maxlen = (8 if d <= 3 else 6) if composite else 16
    for _ in range(20):
        if op == 'sqrt':
            gs = (0, d) if d > 0 else (0,)
        else:
            gs = tuple(sorted(rng.sample(range(d + 1), rng.randint(1, min(3, d + 1)))))
        ks = alg.indices_for_grades[gs]
        if len(ks) <= maxlen:
            return gs, ks
    return (0,), alg.indices_for_grades[(0,)]


def one_case(ctx, base, algs, cfg, name, op, unit):
    rng = ctx.rng
    to = CASE_TIMEOUT[ctx.tier]
    arity = 2 if op in ops.BINARY else 1
    pats = [grade_block_keys(base, rng, op, unit.get('grades_pool')) for _ in range(arity)]
    if unit.get('grades_pool'):
        ctx.count('extreme_grade_cases_d_ge_7')
    vals = []
    for gs, ks in pats:
        if op == 'sqrt':
            vals.append([float(rng.choice((3, 4, 5))) if k == 0 else rng.choice((0.5, -1.5, 1.0)) for k in ks])
        else:
            vals.append([gen.small_frac(rng, nonzero=(rng.random() < 0.8)) for _ in ks])

    def run(alg):
        mvs = [alg.multivector(keys=tuple(ks), values=list(v)) for (gs, ks), v in zip(pats, vals)]
        return ops.call_op(alg, op, *mvs)
    st0, r0 = ctx.guarded(to, run, base)
    if st0 == 'timeout':
        ctx.count('base_timeouts')
        return
    wit0 = dict(config=cfg, op=op, grades=[list(gs) for gs, _ in pats], keys=[list(ks) for _, ks in pats],
                values=[[str(v) for v in vs] for vs in vals])
    for vn, alg in algs.items():
        cid = [name, op, [list(gs) for gs, _ in pats], [[str(v) for v in vs] for vs in vals], vn]
        if not ctx.want(cid):
            continue
        if vn == 'sympy-symbols' and unit.get('sympy_sparse_only') and sum(len(ks) for _, ks in pats) > 6:
            continue
        st, r = ctx.guarded(to * (3 if vn == 'sympy-symbols' else 1), run, alg)
        if st == 'timeout':
            ctx.count('variant_timeouts')
            continue
        if 'graded' not in vn and st == 'ok' and st0 == 'ok' and rng.random() < 0.3 and any(len(ks) > 1 for _, ks in pats):
            # the same operands stored in a permuted key order, under this option setting (not possible in graded mode)
            perm = [list(range(len(ks))) for _, ks in pats]
            for p_ in perm:
                rng.shuffle(p_)

            def run_perm(a_):
                from kingdon.multivector import MultiVector
                mvs = [MultiVector.fromkeysvalues(a_, tuple(ks[i] for i in p_), [v[i] for i in p_]) for ((gs, ks), v), p_ in zip(zip(pats, vals), perm)]
                return ops.call_op(a_, op, *mvs, form='alg')
            stp, rp = ctx.guarded(to * (3 if vn == 'sympy-symbols' else 1), run_perm, alg)
            if stp == 'ok':
                ctx.count('permuted_order_under_option')
                if elem_diff(mv_dict(rp), mv_dict(r0)):
                    ctx.violation('option setting changes the result', cid + ['permuted'], blades=[], op=op, variant=vn, config=cfg,
                                  grades=wit0['grades'], keys=[[ks[i] for i in p_] for (_, ks), p_ in zip(pats, perm)], values=wit0['values'],
                                  default_result=show_elem(mv_dict(r0)), variant_result=show_elem(mv_dict(rp)), r=base.r, graded=False)
        ctx.count('variant_' + vn)
        ctx.count('op_' + op)
        if vn == 'sympy-symbols':
            ctx.count('sympy_symbol_cases')
        graded = 'graded' in vn
        if graded and base.r >= 1:
            ctx.count('graded_degenerate_cases')
        ctx.case(cid)
        if ctx.evaluations % 300 == 1:
            ctx.sample({'signature': name, 'op': op, 'grades': wit0['grades'], 'variant': vn})
        wit = dict(wit0, variant=vn, r=base.r, graded=graded)
        if st0 == 'exc' and st == 'exc':
            ctx.note_raised(r, op)
            if type(r0) is not type(r):
                ctx.count('both_raise_different_types_recorded')
            continue
        if st0 == 'exc':
            ctx.note_raised(r0, op + '-default')
            ctx.count('default_raises_variant_returns_recorded')
            continue
        if st == 'exc':
            ctx.violation('call succeeds with default options but raises with this option setting', cid,
                          error=f'{type(r).__name__}: {str(r)[:200]}', exc_type=type(r).__name__, **wit)
            continue
        g0, g1 = mv_dict(r0), mv_dict(r)
        bad = elem_diff(g0, g1)
        if bad:
            ctx.violation('option setting changes the result', cid, blades=[base.bin2canon[k] for k in bad[:6]],
                          default_result=show_elem({k: g0.get(k, 0) for k in bad[:4]}),
                          variant_result=show_elem({k: g1.get(k, 0) for k in bad[:4]}), **wit)
        if graded:
            ctx.count('graded_results_checked_complete')
            ks = tuple(r.keys())
            grades = tuple(sorted({bin(k).count('1') for k in ks}))
            if ks and ks != alg.indices_for_grades[grades]:
                ctx.violation('graded mode result does not store complete grades', cid + ['complete'], result_keys=list(ks),
                              expected_keys=list(alg.indices_for_grades[grades]), **wit)


def expr_case(ctx, base, algs, cfg, name, en):
    rng = ctx.rng
    to = CASE_TIMEOUT[ctx.tier]
    f = EXPRS.get(en)
    pats = [grade_block_keys(base, rng, 'sw') for _ in range(3)]
    vals = [[gen.small_frac(rng, nonzero=(rng.random() < 0.6)) for _ in ks] for gs, ks in pats]

    def run(alg):
        mvs = [alg.multivector(keys=tuple(ks), values=list(v)) for (gs, ks), v in zip(pats, vals)]
        if f is None:
            return reg_expr(alg, en)(*mvs)
        return f(*mvs, alg.d)
    st0, r0 = ctx.guarded(to, run, base)
    if st0 != 'ok':
        if st0 == 'exc':
            ctx.note_raised(r0, 'expr-default')
            if not isinstance(r0, ZeroDivisionError) and len(ctx.notes) < 5:
                ctx.notes.append(f'expression {en} raised on the default configuration {type(r0).__name__}: {str(r0)[:120]} | {name} grades {[list(gs) for gs, _ in pats]}')
        return
    g0 = mv_dict(r0)
    for vn, alg in algs.items():
        if vn == 'sympy-symbols' and base.d > 2:
            continue
        cid = [name, 'expr', en, [list(gs) for gs, _ in pats], [[str(v) for v in vs] for vs in vals], vn]
        if not ctx.want(cid):
            continue
        st, r = ctx.guarded(to * 2, run, alg)
        if st == 'timeout':
            continue
        ctx.count('multi_step_expressions')
        ctx.count('variant_' + vn)
        ctx.case(cid)
        wit = dict(config=cfg, expression=en, grades=[list(gs) for gs, _ in pats], values=[[str(v) for v in vs] for vs in vals], variant=vn,
                   r=base.r, graded='graded' in vn)
        if st == 'exc':
            ctx.violation('call succeeds with default options but raises with this option setting', cid,
                          error=f'{type(r).__name__}: {str(r)[:200]}', exc_type=type(r).__name__, op='expr', **wit)
            continue
        g1 = mv_dict(r)
        bad = elem_diff(g0, g1)
        if bad:
            ctx.violation('option setting changes the result', cid, op='expr', blades=[base.bin2canon[k] for k in bad[:6]],
                          default_result=show_elem({k: g0.get(k, 0) for k in bad[:4]}), variant_result=show_elem({k: g1.get(k, 0) for k in bad[:4]}), **wit)
        if 'graded' in vn:
            ks = tuple(r.keys())
            grades = tuple(sorted({bin(k).count('1') for k in ks}))
            if ks and ks != alg.indices_for_grades[grades]:
                ctx.violation('graded mode result does not store complete grades', cid + ['complete'], op='expr', result_keys=list(ks),
                              expected_keys=list(alg.indices_for_grades[grades]), **wit)

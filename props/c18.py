"""C18 - matrix representations are faithful."""
import itertools
import random
from fractions import Fraction as Fr

from kvm import gen
from kvm.iso import Iso
from kvm.compare import mv_dict, coef_equal, elem_diff, show_elem

META = {
    'level': 'exploration',
    'rule': ('asmatrix cases = (configuration, clause): M(a*b) == M(a) @ M(b) for all ordered pairs of basis blades (complete by linearity), '
             'M(la+mb) == lM(a)+mM(b), the first column of M(x) holds the coefficients of x in canonical order, frommatrix(M(x)) == x, '
             'stacked first columns have rank 2^d (injectivity); for Fraction, float, array and sympy coefficients. expr_as_matrix cases = '
             '(configuration, linear expression, key patterns of the other input and of x, mode symbolic / numeric / array-valued / res_like): '
             'y equals f(.., x) and A . coefficients(x) equals coefficients(y), decided by substituting random rational values for every symbol '
             'and evaluating f numerically with kingdon itself (array path: per element, broadcasting constant entries of the nested list). '
             'Distinct = distinct (config, clause) / (config, expression, keys, mode).'),
    'assumptions': ['numpy matrix product', 'sympy substitution'],
}
SHARD_DEADLINE = {'quick': 400, 'thorough': 3300}
EXPRS = {
    'R>>x': lambda R, x: R >> x, 'R*x': lambda R, x: R * x, 'x*R': lambda R, x: x * R, 'R.cp(x)': lambda R, x: R.cp(x),
    'R^x': lambda R, x: R ^ x, 'R|x': lambda R, x: R | x, 'R&x': lambda R, x: R & x, 'hodge(R*x)': lambda R, x: (R * x).hodge(),
    'x@R': lambda R, x: x @ R, 'R*x-x*R+2*x': lambda R, x: R * x - x * R + 2 * x, 'x.lc(R)': lambda R, x: x.lc(R),
    '~(x*R)': lambda R, x: ~(x * R), 'R.acp(x)-x': lambda R, x: R.acp(x) - x,
    'asfullmv(R*x)': lambda R, x: (R * x).asfullmv(), '(R*x)/2': lambda R, x: (R * x) / 2, 'x/4+R*x': lambda R, x: x / 4 + R * x, '(x|R)*R': lambda R, x: (x | R) * R, 'R*(x^R)': lambda R, x: R * (x ^ R), 'R.sw(x)+R.cp(x)': lambda R, x: R.sw(x) + R.cp(x),
}
MODES = ['sym', 'num', 'num-int', 'arr', 'reslike', 'reslike-num']


def floors(tier):
    f = {'distinct_nontrivial': 600 if tier == 'quick' else 60000, 'homomorphism_blade_pairs': 20000, 'first_column_checks': 1500,
         'frommatrix_round_trips': 300, 'linearity_checks': 300, 'rank_checks': 80, 'expr_cases': 300,
         'custom_basis_algebras': 20, 'signature_orderings': 60, 'dense_layout_operands': 60, 'shared_symbol_inputs': 30, 'exact_product_matrices_compared': 100}
    for m in MODES:
        f['expr_mode_' + m] = 40
    return f


def plan(tier, seed):
    rng = random.Random(f'C18-plan-{seed}')
    if tier == 'quick':
        cfgs = gen.sig_orderings(1, 3) + rng.sample(gen.sig_orderings(4, 4), 60)
        cfgs += [gen.random_custom_cfg(rng, rng.choice((2, 3, 3, 4))) for _ in range(60)] + gen.NAMED[:2]
        cfgs += [{'p': 2, 'q': 1, 'r': 0, 'start_index': 0}, {'p': 1, 'q': 1, 'r': 1, 'start_index': 2}]
        ecfgs = [{'p': 3, 'q': 0, 'r': 0}, {'p': 2, 'q': 0, 'r': 1}, {'p': 1, 'q': 1, 'r': 1}, {'signature': [1, -1]}, {'named': '2DPGA'},
                 {'p': 3, 'q': 0, 'r': 1}, {'signature': [-1, 1, 0]}, gen.random_custom_cfg(rng, 3),
                 {'p': 2, 'q': 0, 'r': 1, 'opts': {'graded': True}}, {'p': 3, 'q': 0, 'r': 0, 'opts': {'graded': True}}]
        per = 8
    else:
        cfgs = gen.sig_orderings(1, 5) + gen.pqr_all(5, 5)
        cfgs += [gen.random_custom_cfg(rng, rng.choice((2, 3, 3, 4, 4))) for _ in range(1500)] + gen.NAMED
        for b in gen.all_custom_bases(2, 1) + gen.all_custom_bases(2, 0):
            cfgs.append({'signature': [1, -1], 'basis': b})
        ecfgs = gen.sig_orderings(2, 3) + gen.NAMED[:2] + [gen.random_custom_cfg(rng, 3) for _ in range(10)] + gen.pqr_all(4, 4)[::3]
        ecfgs += [dict(c, opts={'graded': True}) for c in gen.pqr_all(2, 3)[::2]]
        per = 120
    U = [{'kind': 'asmatrix', 'cfg': c} for c in cfgs]
    for c in ecfgs:
        for e in EXPRS:
            U.append({'kind': 'expr', 'cfg': c, 'expr': e, 'n': per})
    rng.shuffle(U)
    return [{'units': part} for part in gen.split(U, 16 if tier == 'quick' else 64)]


def run_shard(shard, ctx):
    for unit in shard['units']:
        if ctx.out_of_time():
            ctx.count('units_skipped_out_of_time')
            continue
        if unit['kind'] == 'asmatrix':
            asmatrix_unit(ctx, unit)
        else:
            expr_unit(ctx, unit)


def asmatrix_unit(ctx, unit):
    import numpy as np
    cfg = unit['cfg']
    name = gen.cfg_str(cfg)
    alg = gen.make_or_skip(ctx, cfg)
    if alg is None:
        return
    rng = ctx.rng
    d = alg.d
    n = 2 ** d
    custom = bool(cfg.get('basis') or cfg.get('named'))
    if custom:
        ctx.count('custom_basis_algebras')
    if 'signature' in cfg and not cfg.get('basis'):
        ctx.count('signature_orderings')
    names = list(alg.canon2bin)
    hint = 'custom-basis' if custom else 'default-basis'
    st, mats = ctx.guarded(60, lambda: [np.array(alg.blades[nm].asmatrix(), dtype=float) for nm in names])
    if st != 'ok':
        if st == 'exc':
            ctx.note_raised(mats, 'asmatrix')
        return
    # homomorphism on all ordered pairs of basis blades
    cid = [name, 'homomorphism']
    if ctx.want(cid):
        bad = []
        cnt = 0
        pairs = itertools.product(range(n), repeat=2)
        if d >= 5 and ctx.tier == 'quick':
            pairs = [(rng.randrange(n), rng.randrange(n)) for _ in range(200)]
        for i, j in pairs:
            prod = alg.blades[names[i]] * alg.blades[names[j]]
            M = np.array(prod.asmatrix(), dtype=float) if len(prod) else np.zeros((n, n))
            cnt += 1
            if M.shape != (n, n) or not np.allclose(M, mats[i] @ mats[j]):
                bad.append([names[i], names[j]])
        ctx.count('homomorphism_blade_pairs', cnt)
        ctx.case(cid)
        if bad:
            ctx.violation('asmatrix is not multiplicative on basis blades', cid, config=cfg, n_mismatch=len(bad), of=cnt, blade_pairs=bad[:8],
                          mechanism_hint=hint)
    # first column = coefficients in canonical order
    cid = [name, 'first-column']
    if ctx.want(cid):
        bad = []
        for i, m in enumerate(mats):
            e = np.zeros(n)
            e[i] = 1
            ctx.count('first_column_checks')
            if not np.allclose(m[:, 0], e):
                bad.append(names[i])
        ctx.case(cid)
        if bad:
            ctx.violation('first column of asmatrix is not the coefficient vector', cid, config=cfg, blades=bad[:8], mechanism_hint=hint)
        ctx.count('rank_checks')
        if np.linalg.matrix_rank(np.stack([m[:, 0] for m in mats])) != n:
            ctx.violation('asmatrix is not injective (first columns are dependent)', cid + ['rank'], config=cfg, mechanism_hint=hint)
    # linearity and frommatrix on random multivectors of several coefficient kinds
    from kingdon.multivector import MultiVector
    canon = tuple(alg.canon2bin.values())
    for kind in ('frac', 'float', 'array', 'sympy', 'int'):
        cid = [name, 'linear+frommatrix', kind]
        if not ctx.want(cid):
            continue
        import sympy
        kx = gen.random_subset(rng, canon, 5, 1)
        ky = gen.random_subset(rng, canon, 5, 1)
        r_ = rng.random()
        if r_ < 0.3:
            kx = gen.permuted(rng, kx)
        elif r_ < 0.6 and n <= 16:
            # dense operand: canonical order, binary order or an arbitrary permutation of all 2^d blades
            kx = rng.choice([tuple(canon), tuple(range(n)), gen.permuted(rng, canon)])
            ctx.count('dense_layout_operands')

        def val(i):
            if kind == 'frac':
                return gen.small_frac(rng, nonzero=True)
            if kind == 'int':
                return rng.choice((1, -1)) * rng.randint(20, 120)      # plain Python ints whose products leave any narrow integer type
            if kind == 'float':
                return gen.dyadic(rng) + 0.125
            if kind == 'array':
                return np.array([gen.dyadic(rng) + 0.125, gen.dyadic(rng) - 0.125])
            return sympy.Symbol(f't{i}') * 2 + 1
        x = gen.mv_from(alg, kx, [val(i) for i in range(len(kx))])
        y = gen.mv_from(alg, ky, [val(10 + i) for i in range(len(ky))])
        lam, mu = (3, -2)

        def work():
            Mx, My = x.asmatrix(), y.asmatrix()
            Ms = (lam * x + mu * y).asmatrix()
            back = MultiVector.frommatrix(alg, Mx) if kind != 'array' else None
            Mp = None
            if kind in ('int', 'frac'):
                try:
                    Mp = (x * y).asmatrix()
                except OverflowError as e_:
                    Mp = e_
            return Mx, My, Ms, back, Mp
        st, out = ctx.guarded(60, work)
        if st != 'ok':
            if st == 'exc':
                ctx.note_raised(out, 'asmatrix-' + kind)
            continue
        Mx, My, Ms, back, Mp = out
        if kind == 'int':
            # the product a user forms from the returned matrices must be the exact integer product (no narrow dtype)
            exact_ = np.array(Mx, dtype=object).dot(np.array(My, dtype=object))
            native_ = np.asarray(Mx) @ np.asarray(My)
            ctx.count('native_integer_products_compared')
            if not np.array_equal(np.array(native_, dtype=object), exact_):
                ctx.violation('asmatrix(x) @ asmatrix(y) of integer multivectors is not the exact integer product', cid + ['native-product'], config=cfg,
                              keys=[list(kx), list(ky)], values=[[str(v) for v in x.values()], [str(v) for v in y.values()]],
                              dtype=str(getattr(np.asarray(Mx), 'dtype', None)), mechanism_hint=hint)
        if isinstance(Mp, Exception):
            ctx.note_raised(Mp, 'asmatrix-of-product')
            Mp = None
        if Mp is not None:
            # multiplicativity on the multivectors themselves, in exact arithmetic
            try:
                A_, B_, P_ = (np.array(m, dtype=object) for m in (Mx, My, Mp))
                if P_.shape != A_.shape:
                    # asmatrix() of a product that stores no blade: the zero element maps to the zero MATRIX (linearity, and
                    # frommatrix has to be able to invert it), not to a bare number
                    ctx.violation('asmatrix() of the zero multivector is not a matrix', cid + ['zero-element'], config=cfg, keys=[list(kx), list(ky)],
                                  got=repr(Mp)[:80], expected_shape=list(A_.shape), mechanism_hint=hint)
                    P_ = np.zeros(A_.shape, dtype=object) + P_
                native = np.asarray(Mx) @ np.asarray(My) if kind == 'int' else None     # the product a user forms from the returned matrices
                if native is not None and not np.array_equal(np.array(native, dtype=object), P_):
                    ctx.violation('asmatrix(x) @ asmatrix(y) formed from the returned matrices differs from asmatrix(x*y)', cid + ['native-product'],
                                  config=cfg, keys=[list(kx), list(ky)], values=[[str(v) for v in x.values()], [str(v) for v in y.values()]],
                                  dtype=str(getattr(np.asarray(Mx), 'dtype', None)), mechanism_hint=hint)
                if not np.array_equal(A_.dot(B_), P_):
                    ctx.violation('asmatrix(x*y) != asmatrix(x) @ asmatrix(y) for integer / rational coefficients', cid + ['product'], config=cfg,
                                  keys=[list(kx), list(ky)], values=[[str(v) for v in x.values()], [str(v) for v in y.values()]], mechanism_hint=hint)
                ctx.count('exact_product_matrices_compared')
            except Exception as e:
                ctx.note_raised(e, 'exact-matmul')
        ctx.count('linearity_checks')
        ctx.case(cid)
        ok = True
        try:
            if kind == 'sympy':
                D = sympy.Matrix(np.array(Ms, dtype=object) - lam * np.array(Mx, dtype=object) - mu * np.array(My, dtype=object))
                ok = all(sympy.expand(e) == 0 for e in D)
            elif kind == 'array':
                ok = np.allclose(np.array(Ms, dtype=float), lam * np.array(Mx, dtype=float) + mu * np.array(My, dtype=float))
            else:
                ok = np.allclose(np.array(Ms, dtype=float), lam * np.array(Mx, dtype=float) + mu * np.array(My, dtype=float))
        except Exception as e:
            ctx.note_raised(e, 'linearity-compare')
        if not ok:
            ctx.violation('asmatrix is not linear', cid, config=cfg, keys=[list(kx), list(ky)], mechanism_hint=hint)
        # first column of M(x) = coefficients of x in canonical order
        want = [getattr(x, nm) for nm in names]
        col = [Mx[i][0] if not hasattr(Mx, 'shape') else Mx[i, 0] for i in range(n)] if kind != 'array' else None
        if col is not None:
            ctx.count('first_column_checks')
            if not all(coef_equal(a, b) for a, b in zip(col, want)):
                ctx.violation('first column of asmatrix(x) is not the coefficient vector of x', cid + ['col'], config=cfg, keys=list(kx),
                              column=[str(c) for c in col][:8], expected=[str(c) for c in want][:8], mechanism_hint=hint)
        if back is not None:
            ctx.count('frommatrix_round_trips')
            if elem_diff(mv_dict(back), mv_dict(x)):
                ctx.violation('frommatrix(asmatrix(x)) != x', cid + ['frommatrix'], config=cfg, keys=list(kx), got=show_elem(mv_dict(back)),
                              expected=show_elem(mv_dict(x)), mechanism_hint=hint)
    if ctx.evaluations % 40 < 6:
        ctx.sample({'family': 'asmatrix', 'config': name, 'd': d})


def expr_unit(ctx, unit):
    import numpy as np
    import sympy
    from kingdon import expr_as_matrix
    cfg = unit['cfg']
    name = gen.cfg_str(cfg)
    alg = gen.make_or_skip(ctx, cfg)
    if alg is None:
        return
    rng = ctx.rng
    f = EXPRS[unit['expr']]
    canon = tuple(alg.canon2bin.values())
    for _ in range(unit['n']):
        if ctx.out_of_time():
            return
        mode = rng.choice(MODES)
        xk = tuple(rng.sample(list(canon), min(len(canon), rng.randint(1, 3))))
        rk = gen.random_subset(rng, canon, 3, 1) if rng.random() < 0.6 else tuple(k for k in canon if bin(k).count('1') % 2 == 0)[:4]
        if len(rk) >= 2 and rng.random() < 0.4 and not cfg.get('opts', {}).get('graded'):
            # the other input stores its blades in a non-canonical order (x already does: rng.sample)
            rk = gen.permuted(rng, rk)
            if tuple(rk) != tuple(sorted(rk, key=canon.index)):
                ctx.count('other_input_in_noncanonical_key_order')
        if cfg.get('opts', {}).get('graded'):
            # graded mode: operands hold complete grades
            xk = tuple(alg.indices_for_grades[(rng.randint(0, alg.d),)])
            rk = tuple(alg.indices_for_grades[tuple(sorted(rng.sample(range(alg.d + 1), rng.randint(1, 2))))])
            if len(xk) > 4 or len(rk) > 6:
                continue
            ctx.count('graded_mode_expr_cases')
        cid = [name, 'expr', unit['expr'], list(rk), list(xk), mode]
        if not ctx.want(cid):
            continue
        # the unknown may carry any name, also one of the letters kingdon uses for its own stand-in symbols
        xname = 'x' if rng.random() < 0.7 else rng.choice(('A', 'B'))
        x = alg.multivector(name=xname, keys=xk)
        rvals = [Fr(gen.small_int(rng, -3, 3, nonzero=True), rng.choice((1, 2))) for _ in rk]
        if mode in ('sym', 'reslike'):
            R = alg.multivector(name='R', keys=rk)
            if rng.random() < 0.4 and len(rk) >= 2:
                # symbols shared between coefficients: rows then have common symbolic factors
                syms = list(R.values())
                shared = [syms[0] if (i % 2 == 0) else syms[1] for i in range(len(syms))]
                R = gen.mv_from(alg, rk, shared)
                rvals = [rvals[0] if (i % 2 == 0) else rvals[1] for i in range(len(rvals))]
                ctx.count('shared_symbol_inputs')
        elif mode == 'num-int':
            # integer-valued inputs: the matrix entries can still be fractional (x / 4, (R*x) / 2, 0.5 in cp)
            rvals = [Fr(gen.small_int(rng, -3, 3, nonzero=True)) for _ in rk]
            R = gen.mv_from(alg, rk, [int(v) for v in rvals])
        elif mode in ('num', 'reslike-num'):
            R = gen.mv_from(alg, rk, [float(v) for v in rvals])
        else:
            R = gen.mv_from(alg, rk, [np.array([float(v), float(v) + 0.5 * (i + 1)]) for i, v in enumerate(rvals)])
        kw = {}
        if mode.startswith('reslike'):
            lk = tuple(rng.sample(list(canon), min(len(canon), 2)))
            if cfg.get('opts', {}).get('graded'):
                lk = tuple(alg.indices_for_grades[(rng.randint(0, alg.d),)])       # graded mode: a complete grade
            kw['res_like'] = gen.mv_from(alg, lk, [0] * len(lk))
        st, out = ctx.guarded(60, lambda: expr_as_matrix(f, R, x, **kw))
        if st != 'ok':
            if st == 'exc':
                ctx.note_raised(out, 'expr_as_matrix-' + mode)
                # the expression itself evaluates on these inputs: then "returns A and y with y = f(.., x)" has nothing to offer
                st_f, y_f = ctx.guarded(60, lambda: f(R, x))
                if st_f == 'ok':
                    ctx.count('expr_cases')
                    ctx.count('expr_mode_' + mode)
                    ctx.case(cid)
                    ctx.violation('expr_as_matrix raises although the expression evaluates on the same inputs', cid + ['raises'], config=cfg, expression=unit['expr'],
                                  mode=mode, R_keys=list(rk), x_keys=list(xk), x_name=xname, error=f'{type(out).__name__}: {str(out)[:160]}',
                                  res_like_keys=list(kw['res_like'].keys()) if kw else None)
            continue
        A, y = out
        xvals = [Fr(rng.randint(-9, 9), rng.choice((1, 2, 3))) for _ in xk]
        xn = gen.mv_from(alg, xk, list(xvals))
        xsub = {s: sympy.Rational(v.numerator, v.denominator) for s, v in zip(x.values(), xvals)}
        ykeys = tuple(y.keys())
        problems = []
        try:
            if mode == 'arr':
                nel = 2
                for el in range(nel):
                    Rn = gen.mv_from(alg, rk, [float(v[el]) for v in R.values()])
                    want = mv_dict(f(Rn, xn))
                    for row, k in enumerate(ykeys):
                        tot = 0
                        for col in range(len(xk)):
                            ent = A[row][col]
                            ent = ent[el] if hasattr(ent, 'shape') and getattr(ent, 'shape', ()) != () else ent
                            tot += float(ent) * float(xvals[col])
                        yv = list(y.values())[row]
                        yv = yv[el] if hasattr(yv, 'shape') and getattr(yv, 'shape', ()) != () else yv
                        yv = float(sympy.sympify(yv).subs(xsub))
                        if not coef_equal(tot, float(want.get(k, 0)), 1e-8):
                            problems.append(['A.x != f(R,x)', alg.bin2canon[k], el, tot, float(want.get(k, 0))])
                        if not coef_equal(yv, float(want.get(k, 0)), 1e-8):
                            problems.append(['y != f(R,x)', alg.bin2canon[k], el, yv, float(want.get(k, 0))])
                    if not kw:
                        for k, v in want.items():
                            if k not in ykeys and not coef_equal(v, 0):
                                problems.append(['y misses a non-zero blade', alg.bin2canon[k], el])
            else:
                if mode in ('sym', 'reslike'):
                    rsub = {s: sympy.Rational(v.numerator, v.denominator) for s, v in zip(R.values(), rvals)}
                    Rn = gen.mv_from(alg, rk, list(rvals))
                else:
                    rsub = {}
                    Rn = R
                want = mv_dict(f(Rn, xn))
                allsub = dict(xsub)
                allsub.update(rsub)
                An = sympy.Matrix(A).subs(rsub) if mode in ('sym', 'reslike') else sympy.Matrix(np.array(A, dtype=float))
                Ax = An * sympy.Matrix([xsub[s] for s in x.values()])
                for row, k in enumerate(ykeys):
                    yv = sympy.sympify(list(y.values())[row]).subs(allsub)
                    w = want.get(k, 0)
                    if not coef_equal(complex(Ax[row]).real, float(w), 1e-8):
                        problems.append(['A.x != f(R,x)', alg.bin2canon[k], str(Ax[row]), str(w)])
                    if not coef_equal(complex(yv).real, float(w), 1e-8):
                        problems.append(['y != f(R,x)', alg.bin2canon[k], str(yv), str(w)])
                if kw:
                    if set(ykeys) != set(kw['res_like'].keys()):
                        problems.append(['res_like keys not respected', [alg.bin2canon[k] for k in ykeys]])
                else:
                    for k, v in want.items():
                        if k not in ykeys and not coef_equal(v, 0):
                            problems.append(['y misses a non-zero blade', alg.bin2canon[k]])
                if np.shape(A) != (len(ykeys), len(xk)):
                    problems.append(['shape of A', list(np.shape(A)), [len(ykeys), len(xk)]])
        except Exception as e:
            ctx.note_raised(e, 'expr-oracle-' + mode)
            continue
        ctx.count('expr_cases')
        ctx.count('expr_mode_' + mode)
        ctx.case(cid)
        if ctx.evaluations % 60 == 1:
            ctx.sample({'family': 'expr_as_matrix', 'config': name, 'expr': unit['expr'], 'mode': mode, 'R_keys': list(rk), 'x_keys': list(xk)})
        if problems:
            ctx.violation('expr_as_matrix: A / y do not represent the expression', cid, config=cfg, expression=unit['expr'], mode=mode,
                          R_keys=list(rk), x_keys=list(xk), R_values=[str(v) for v in rvals], x_values=[str(v) for v in xvals],
                          problems=problems[:6], mechanism_hint='custom-basis' if (cfg.get('basis') or cfg.get('named')) else 'default-basis')

"""C11 - registered (compiled) expressions equal direct evaluation."""
import itertools
import random
import traceback
from fractions import Fraction as Fr

from kvm import gen, ops
from kvm.compare import coef_is_zero, elem_diff, show_elem, mv_dict, is_exact

META = {
    'level': 'exploration',
    'rule': ('one case = (configuration, program, registration mode numeric|symbolic, argument key patterns and values). Programs are Python '
             'functions generated from a grammar over the documented operator table (infix and method forms, duals, norm/normalisation/sqrt, '
             'grade selection, numbers on either side of * + -, division by a number, integer powers -3..3, coefficient access, calls of other '
             'registered functions) - exhaustive to depth 2 in the thorough tier, sampled depth 2 and random depth 3-5 in quick - plus a second '
             'grammar of other API uses. Oracle: alg.register(f)(*args) and alg.register(symbolic=True)(f)(*args) are the same element as the '
             'plain f(*args); for first-grammar programs a registered function that raises while f returns is a violation; for the second '
             'grammar raising is accepted, a different value is not. Distinct = distinct (config, program, mode, argument key patterns).'),
    'assumptions': ['plain evaluation f(*args) with kingdon\'s own operators is the specification (the statement\'s wording)'],
}
SHARD_DEADLINE = {'quick': 400, 'thorough': 3400}
CASE_TIMEOUT = {'quick': 20, 'thorough': 90}

UN_METH = ['inv', 'reverse', 'involute', 'conjugate', 'normsq', 'norm', 'normalized', 'sqrt', 'dual', 'undual',
           'hodge', 'unhodge', 'polarity', 'unpolarity']
UN_INFIX = ['-', '~']
BIN_INFIX = ['*', '|', '^', '&', '>>', '@', '+', '-', '/']
BIN_METH = ['gp', 'ip', 'sp', 'lc', 'rc', 'op', 'rp', 'sw', 'proj', 'cp', 'acp', 'add', 'sub', 'div']
NUMS = ['2', '-3', '0.5']
NUMFORMS = ['{n} * {x}', '{x} * {n}', '{x} + {n}', '{n} + {x}', '{x} - {n}', '{n} - {x}']
DIVNUMS = ['2', '0.5', '-4']      # x / n is computed as x * (1/n) in floating point: keep 1/n exactly representable
POWERS = [-3, -2, -1, 0, 1, 2, 3]
OTHER_UN = ['outerexp', 'outersin', 'outercos', 'outertan']
EXPENSIVE = ('inv', 'div', '/', 'outertan', 'normalized', 'sw', '>>', 'proj', '@', '** -')


def floors(tier):
    return {'distinct_nontrivial': 1500 if tier == 'quick' else 30000, 'programs': 600, 'numeric_mode_compared': 1000,
            'symbolic_mode_compared': 150, 'grammar2_programs': 60, 'depth3plus_programs': 100,
            'programs_calling_registered_functions': 40, 'three_argument_programs': 40, 'programs_with_same_named_callees': 20,
            'feature_negpow': 20, 'feature_coeff': 20, 'feature_numbers': 100, 'feature_grade': 60, 'feature_dual': 60}


class Prog:
    def __init__(self, expr, nargs, grammar, feats, depth):
        self.expr, self.nargs, self.grammar, self.feats, self.depth = expr, nargs, grammar, sorted(feats), depth

    def desc(self):
        return {'expr': self.expr, 'nargs': self.nargs, 'grammar': self.grammar, 'feats': self.feats, 'depth': self.depth}


def blade_names(d, start=1):
    names = []
    gens_ = [hex(start + i)[2:] for i in range(d)]
    for g in range(0, d + 1):
        for c in itertools.combinations(gens_, g):
            names.append('e' + ''.join(c))
    return names


def productions(d, start, rng=None):
    """All depth-1 productions as (template, arity, feats, grammar); {x},{y} are sub-expression slots."""
    P = []
    for m in UN_METH:
        f = {'un:' + m}
        if m in ('sqrt', 'norm', 'normalized'):
            f.add('sqrtfam')
        if m in ('dual', 'undual', 'hodge', 'unhodge', 'polarity', 'unpolarity'):
            f.add('dual')
        P.append(('({x}).' + m + '()', 1, f, 1))
    P.append(('(-({x}))', 1, {'un:neg'}, 1))
    P.append(('(~({x}))', 1, {'un:rev'}, 1))
    for o in BIN_INFIX:
        P.append(('(({x}) ' + o + ' ({y}))', 2, {'bin:' + o}, 1))
    for m in BIN_METH:
        P.append(('({x}).' + m + '({y})', 2, {'bin:' + m}, 1))
    for n in NUMS:
        for form in NUMFORMS:
            P.append(('(' + form.replace('{n}', n).replace('{x}', '({x})') + ')', 1, {'numbers'}, 1))
    # plain numbers of other types than int / float (module-level constants of the program: complex, Fraction, numpy scalars; no single-precision float: it is carried with 6-7 digits through printing and ill-conditioned programs amplify that)
    for n in ('N_C', 'N_F', 'N_I64', 'N_F64'):
        for form in ('{x} + {n}', '{n} + {x}', '{n} * {x}', '{x} - {n}', '{x} * {n}'):
            P.append(('(' + form.replace('{n}', n).replace('{x}', '({x})') + ')', 1, {'numbers', 'number-types'}, 1))
    for n in DIVNUMS:
        P.append(('(({x}) / ' + n + ')', 1, {'numbers', 'div-number'}, 1))
    for p in POWERS:
        f = {'pow'}
        if p < 0:
            f.add('negpow')
        P.append((f'(({{x}}) ** {p})', 1, f, 1))
    for g in range(d + 1):
        P.append((f'({{x}}).grade({g})', 1, {'grade'}, 1))
    if d >= 2:
        P.append(('({x}).grade(0, 2)', 1, {'grade'}, 1))
        P.append(('({x}).grade((1, 2))', 1, {'grade'}, 1))
    names = blade_names(d, start)
    for nm in names:
        P.append((f'(({{x}}).{nm} * ({{y}}))', 2, {'coeff'}, 1))
    for nm in names[1:]:
        if len(nm) >= 3:
            sp = 'e' + nm[1:][::-1]
            P.append((f'(({{x}}).{sp} * ({{y}}))', 2, {'coeff', 'coeff-permuted'}, 1))
    for nm in names[1:]:
        if len(nm) >= 4:
            cyc = 'e' + nm[2:] + nm[1]       # cyclic shift: an even permutation for grade 3
            P.append((f'(({{x}}).{cyc} * ({{y}}))', 2, {'coeff', 'coeff-permuted', 'coeff-cyclic'}, 1))
    P.append((f'(({{y}}) + ({{x}}).{names[-1]})', 2, {'coeff', 'coeff-add'}, 1))
    # calls of other registered functions (g1, g2 are provided by the harness)
    P.append(('g1({x}, {y})', 2, {'regcall'}, 1))
    P.append(('g2({x})', 1, {'regcall'}, 1))
    # two registered callees that share a __name__ (factory closures), both used in one program
    P.append(('(h2({x}) - h3({y}))', 2, {'regcall', 'same-name-callees'}, 1))
    P.append(('(h3({x}) + h2({x}))', 1, {'regcall', 'same-name-callees'}, 1))
    # ---- second grammar: other uses of the API -----------------------------------
    for m in OTHER_UN:
        P.append(('({x}).' + m + '()', 1, {'un:' + m}, 2))
    P.append(('(1 / ({x}))', 1, {'rdiv'}, 2))
    P.append(('(({x}) ** 0.5)', 1, {'pow0.5', 'sqrtfam'}, 2))
    P.append(('({x}).exp()', 1, {'exp'}, 2))
    P.append(('({x}).map(lambda v: 2 * v)', 1, {'map'}, 2))
    P.append(('({x}).asfullmv()', 1, {'asfullmv'}, 2))
    P.append(('({x}).filter()', 1, {'filter'}, 2))
    # "products with plain numbers on either side": every infix product of the operator table, number left or right
    for o in ('>>', '@', '|', '&', '^'):
        P.append((f'(2 {o} ({{x}}))', 1, {'numbers', 'reflected-number'}, 1))
        P.append((f'(({{x}}) {o} 2)', 1, {'numbers', 'number-right'}, 1))
    P.append(('({x}).dual(kind="hodge")', 1, {'dual'}, 2))
    # a multivector that is not an argument but a constant of the program (a module-level name): "any other use"
    for tmpl in ('(({x}) * K_S)', '(({x}) + K_S)', '(K_S * ({x}))', '(({x}) * K_V)', '(({x}) - K_V)'):
        P.append((tmpl, 1, {'mv-constant'}, 2))
    P.append(('(({x}) * ({y})).e', 2, {'coeff-result'}, 2))
    return P


def instantiate(tmpl, subs):
    out = tmpl
    for k, v in subs.items():
        out = out.replace('{' + k + '}', v)
    return out


def depth1(P, leaves):
    for tmpl, ar, f, g in P:
        if ar == 1:
            for x in leaves:
                yield Prog(instantiate(tmpl, {'x': x}), 0, g, f, 1)
        else:
            for x, y in itertools.product(leaves, repeat=2):
                yield Prog(instantiate(tmpl, {'x': x, 'y': y}), 0, g, f, 1)


def depth2(P, leaves):
    # number-valued programs (a bare coefficient) are roots only: the statement speaks of operators between multivector-valued subexpressions
    inner = [p for p in depth1(P, leaves) if 'coeff-result' not in p.feats]
    for tmpl, ar, f, g in P:
        for q in inner:
            if ar == 1:
                yield Prog(instantiate(tmpl, {'x': q.expr}), 0, max(g, q.grammar), set(f) | set(q.feats), 2)
            else:
                for leaf in leaves[:1]:
                    yield Prog(instantiate(tmpl, {'x': q.expr, 'y': leaf}), 0, max(g, q.grammar), set(f) | set(q.feats), 2)
                    yield Prog(instantiate(tmpl, {'x': leaf, 'y': q.expr}), 0, max(g, q.grammar), set(f) | set(q.feats), 2)


def random_prog(rng, P, leaves, depth):
    if depth == 0:
        return Prog(rng.choice(leaves), 0, 1, set(), 0)
    tmpl, ar, f, g = rng.choice(P)
    if g == 2 and rng.random() < 0.6:
        tmpl, ar, f, g = rng.choice(P)
    x = random_prog(rng, P, leaves, depth - 1)
    while 'coeff-result' in x.feats:
        x = random_prog(rng, P, leaves, depth - 1)
    if ar == 1:
        return Prog(instantiate(tmpl, {'x': x.expr}), 0, max(g, x.grammar), set(f) | set(x.feats), depth)
    y = random_prog(rng, P, leaves, rng.randint(0, depth - 1))
    while 'coeff-result' in y.feats:
        y = random_prog(rng, P, leaves, rng.randint(0, depth - 1))
    if rng.random() < 0.5:
        x, y = y, x
    return Prog(instantiate(tmpl, {'x': x.expr, 'y': y.expr}), 0, max(g, x.grammar, y.grammar),
                set(f) | set(x.feats) | set(y.feats), depth)


def nargs_of(expr):
    return 3 if 'c' in _names(expr) else (2 if 'b' in _names(expr) else 1)


def _names(expr):
    import re
    return set(re.findall(r'(?<![A-Za-z0-9_.])([abc])(?![A-Za-z0-9_(])', expr))


def plan(tier, seed):
    rng = random.Random(f'C11-plan-{seed}')
    units = []
    if tier == 'quick':
        cfgs = [{'p': 2, 'q': 0, 'r': 0}, {'p': 3, 'q': 0, 'r': 0}, {'p': 2, 'q': 0, 'r': 1}, {'p': 1, 'q': 1, 'r': 0},
                {'signature': [1, -1, 1]}, {'named': '2DPGA'}, {'p': 2, 'q': 0, 'r': 0, 'opts': {'wrapper': 'identity'}},
                {'p': 3, 'q': 0, 'r': 1}, {'p': 2, 'q': 0, 'r': 1, 'opts': {'wrapper': 'wraps'}}]
        for i, c in enumerate(cfgs):
            units.append({'cfg': c, 'fam': 'depth1', 'i': 0, 'n': 1})
            units.append({'cfg': c, 'fam': 'depth2', 'count': 110})
            units.append({'cfg': c, 'fam': 'random', 'count': 45})
        nshards = 16
    else:
        cfgs = [{'p': 2, 'q': 0, 'r': 0}, {'p': 3, 'q': 0, 'r': 0}, {'p': 2, 'q': 0, 'r': 1}, {'p': 1, 'q': 1, 'r': 0},
                {'signature': [1, -1, 1]}, {'signature': [0, 1]}, {'named': '2DPGA'}, {'named': '3DPGA'},
                {'p': 2, 'q': 0, 'r': 0, 'opts': {'wrapper': 'identity'}}, {'p': 3, 'q': 0, 'r': 1}, {'p': 4, 'q': 0, 'r': 0},
                {'p': 2, 'q': 1, 'r': 0, 'opts': {'cse': False}}, {'p': 1, 'q': 0, 'r': 1}, {'p': 0, 'q': 2, 'r': 0},
                {'p': 2, 'q': 0, 'r': 1, 'opts': {'wrapper': 'wraps'}}, {'p': 3, 'q': 0, 'r': 0, 'opts': {'wrapper': 'wraps'}}]
        cfgs += [gen.random_custom_cfg(rng, rng.choice((2, 3))) for _ in range(4)]
        for c in cfgs:
            units.append({'cfg': c, 'fam': 'depth1', 'i': 0, 'n': 1})
            units.append({'cfg': c, 'fam': 'random', 'count': 400})
        for c in cfgs[:3]:
            for i in range(16):
                units.append({'cfg': c, 'fam': 'depth2x', 'i': i, 'n': 16})
        for c in cfgs[3:]:
            units.append({'cfg': c, 'fam': 'depth2', 'count': 500})
        nshards = 64
    rng.shuffle(units)
    return [{'units': part} for part in gen.split(units, nshards)]


# ---------------------------------------------------------------------------------

G1_SRC = 'def g1(a, b):\n    return (a * b).grade(1) + a\n'
G2_SRC = 'def g2(a):\n    return ~a + 2 * a\n'
H_SRC = 'def mk(k):\n    def same(a):\n        return k * a + a * a\n    return same\nh2 = mk(2)\nh3 = mk(3)\n'


def compile_prog(src_expr, nargs, ns):
    args = ', '.join('abc'[:nargs])
    src = f'def f({args}):\n    return {src_expr}\n'
    loc = {}
    exec(compile(src, '<c11-program>', 'exec'), ns, loc)
    return loc['f']


def run_shard(shard, ctx):
    for unit in shard['units']:
        cfg = unit['cfg']
        name = gen.cfg_str(cfg)
        alg = gen.make_or_skip(ctx, cfg)
        if alg is None:
            continue
        ctx.count('algebras')
        d = alg.d
        P = productions(d, alg.start_index)
        leaves = ['a', 'b']
        fam = unit['fam']
        if fam == 'depth1':
            progs = list(depth1(P, leaves))
        elif fam == 'depth2x':
            progs = [p for j, p in enumerate(depth2(P, leaves)) if j % unit['n'] == unit['i']]
        elif fam == 'depth2':
            allp = list(depth2(P, leaves))
            progs = ctx.rng.sample(allp, min(unit['count'], len(allp)))
        else:
            progs = [random_prog(ctx.rng, P, ['a', 'b', 'c'] if ctx.rng.random() < 0.4 else leaves, ctx.rng.randint(3, 5))
                     for _ in range(unit['count'])]
        # harness-side registered callees: plain versions for the oracle, registered versions for registration
        import numpy as _np
        consts = {'N_C': 2j, 'N_F': Fr(1, 2), 'N_I64': _np.int64(2), 'N_F64': _np.float64(0.5),
                  'K_S': alg.scalar([0.123456789]), 'K_V': alg.multivector(keys=(tuple(alg.canon2bin.values())[-1],), values=[1.23456789])}
        plain_ns = dict(consts)
        exec(G1_SRC + G2_SRC + H_SRC, plain_ns)
        reg_ns = dict(consts, g1=alg.register(plain_ns['g1']), g2=alg.register(plain_ns['g2']),
                      h2=alg.register(plain_ns['h2']), h3=alg.register(plain_ns['h3']))
        for prog in progs:
            if ctx.out_of_time():
                ctx.count('programs_skipped_out_of_time')
                break
            prog.nargs = nargs_of(prog.expr)
            one_program(ctx, alg, cfg, name, prog, plain_ns, reg_ns)


def gen_args(ctx, alg, nargs):
    rng = ctx.rng
    canon = tuple(alg.canon2bin.values())
    args = []
    for _ in range(nargs):
        r = rng.random()
        if r < 0.55:
            ks = gen.random_subset(rng, canon, 3, 1)
        elif r < 0.75:
            ks = gen.permuted(rng, gen.random_subset(rng, canon, 3, 2))
        elif r < 0.9:
            g = rng.randint(0, alg.d)
            ks = gen.grade_block(canon, (g,))
        else:
            ks = canon if len(canon) <= 8 else gen.random_subset(rng, canon, 4, 2)
        vals = [Fr(gen.small_int(rng, -3, 3, nonzero=True), rng.choice((1, 1, 2))) for _ in ks]
        args.append((tuple(ks), vals))
    return args


def as_elem(r):
    if hasattr(r, 'keys') and hasattr(r, 'values'):
        return mv_dict(r)
    if isinstance(r, (list, tuple)):
        return {('seq', i): v for i, v in enumerate(r)}
    return {0: r}


def innermost_kingdon_frame(e):
    tb = traceback.extract_tb(e.__traceback__)
    for fr_ in reversed(tb):
        if '/kingdon/' in fr_.filename:
            return f'{fr_.filename.rsplit("/", 1)[-1]}:{fr_.name}'
    return None


def one_program(ctx, alg, cfg, name, prog, plain_ns, reg_ns):
    to = CASE_TIMEOUT[ctx.tier]
    argspec = gen_args(ctx, alg, prog.nargs)
    pid = [name, prog.expr, [list(k) for k, _ in argspec]]
    if ctx.only_case is not None and ctx.only_case[:2] != pid[:2]:
        return
    try:
        f_plain = compile_prog(prog.expr, prog.nargs, plain_ns)
        f_reg = compile_prog(prog.expr, prog.nargs, reg_ns)
    except SyntaxError as e:
        ctx.count('harness_bad_program')
        return

    def mkargs():
        return [gen.mv_from(alg, ks, list(vs)) for ks, vs in argspec]
    st, want = ctx.guarded(to, lambda: f_plain(*mkargs()))
    if st != 'ok':
        ctx.count('plain_f_raised_case_discarded' if st == 'exc' else 'plain_f_timeout')
        if st == 'exc':
            ctx.note_raised(want, 'plain')
        return
    want_e = as_elem(want)
    def _finite(v):
        import numpy as _np
        if hasattr(v, 'free_symbols'):
            return True
        try:
            return bool(_np.all(_np.isfinite(_np.asarray(v, dtype=complex))))
        except Exception:
            return True
    finite = all(_finite(v) for v in want_e.values())
    if not finite:
        # numpy scalars turn a division by zero into inf / nan (with a warning) where Python numbers raise: the plain function
        # has no value here either
        ctx.count('plain_f_not_finite_case_discarded')
        return
    ctx.count('programs')
    if prog.grammar == 2:
        ctx.count('grammar2_programs')
    if prog.depth >= 3:
        ctx.count('depth3plus_programs')
    if 'regcall' in prog.feats:
        ctx.count('programs_calling_registered_functions')
    if 'same-name-callees' in prog.feats:
        ctx.count('programs_with_same_named_callees')
    if prog.nargs == 3:
        ctx.count('three_argument_programs')
    for ft in ('negpow', 'coeff', 'numbers', 'grade', 'dual'):
        if ft in prog.feats:
            ctx.count('feature_' + ft)
    if ctx.counters['programs'] % 150 == 1:
        ctx.sample({'config': name, 'program': prog.desc(), 'arg_keys': [list(k) for k, _ in argspec]})
    modes = ['numeric']
    expensive = any(t in prog.expr for t in EXPENSIVE)
    # symbolic registration expands the whole expression into one rational function; with two or more inversions its degree explodes and
    # evaluating it in floating point (float literals are printed with 15 digits) is dominated by cancellation error, so such programs
    # are only compared in numeric mode (exact Fraction inputs and no float literal => still compared exactly, see below)
    inversions = prog.expr.count('** -') + prog.expr.count('.inv()') + prog.expr.count(') / (') + prog.expr.count('.div(') \
        + prog.expr.count('.outertan()') + prog.expr.count('.normalized()') + prog.expr.count('(1 / ')
    has_float_literal = '0.5' in prog.expr or 'sqrt' in prog.expr or 'norm' in prog.expr or 'exp' in prog.expr or 'outer' in prog.expr
    ill_conditioned = inversions >= 2 and has_float_literal
    if ill_conditioned:
        ctx.count('symbolic_mode_skipped_ill_conditioned_float_program')
    elif alg.d <= 2 or (ctx.tier == 'thorough' and alg.d == 3 and not expensive) or (alg.d == 3 and not expensive and ctx.rng.random() < 0.15):
        modes.append('symbolic')
    for mode in modes:
        cid = pid + [mode]
        if not ctx.want(cid):
            continue

        def registered():
            rf = alg.register(f_reg) if mode == 'numeric' else alg.register(symbolic=True)(f_reg)
            return rf(*mkargs())
        st, got = ctx.guarded(to if mode == 'numeric' else to * 2, registered)
        if st == 'timeout':
            ctx.count(f'{mode}_timeouts')
            continue
        wit = dict(config=cfg, program=prog.desc(), mode=mode, arg_keys=[list(k) for k, _ in argspec],
                   arg_values=[[str(v) for v in vs] for _, vs in argspec], plain_result=show_elem(want_e))
        ctx.count(f'{mode}_mode_compared')
        ctx.case(cid)
        if st == 'exc':
            ctx.note_raised(got, mode)
            if isinstance(got, (RecursionError, MemoryError)):
                # the expanded expression is too deep for the Python compiler: a resource limit, like a timeout (inconclusive, not judged)
                ctx.count(f'{mode}_resource_limit_not_judged')
                continue
            if isinstance(got, ZeroDivisionError) and all(coef_is_zero(v) for v in want_e.values()):
                # the plain function reached the zero element through a structurally absent blade (x.e02 of a multivector that does not
                # store e02 is the number 0, and 0 * y stores nothing), the compiled function carries the same zero as a VALUE and divides
                # by it (sqrt / inverse / normalisation of an explicit zero): a singular point, representation dependent on both sides
                ctx.count(f'{mode}_singular_point_zero_result_not_judged')
                continue
            if prog.grammar == 1:
                ctx.violation('registered function raises where the plain function returns', cid,
                              registered_outcome=f'{type(got).__name__}: {str(got)[:160]}', exc_type=type(got).__name__,
                              exc_where=innermost_kingdon_frame(got), **wit)
            else:
                ctx.count('grammar2_registered_raised_accepted')
            continue
        got_e = as_elem(got)
        inexact = not all(is_exact(v) for v in list(got_e.values()) + list(want_e.values()))
        # float results: generated code prints non-dyadic constants with 15 digits and evaluates in another order, which an
        # ill-conditioned expression amplifies; 1e-6 relative is "to rounding" here, exact comparison otherwise
        bad = elem_diff(got_e, want_e, tol=1e-6 if inexact else 1e-9)
        if bad and not all(is_exact(v) for v in list(got_e.values()) + list(want_e.values())):
            # floats are involved (float literal, sqrt family, 1/k! constants): a symbolically expanded high-degree expression can
            # differ from the step-by-step evaluation by cancellation error alone. Decide by re-evaluating both sides with
            # 400-bit mpmath coefficients: agreement there means the two denote the same function.
            verdict = recheck_high_precision(ctx, alg, f_plain, f_reg, mode, argspec, to)
            if verdict == 'agree':
                ctx.count('float_cancellation_differences_resolved_in_high_precision')
                bad = []
            elif verdict == 'unknown':
                ctx.count('float_differences_undecided_recorded_not_judged')
                bad = []
        if bad:
            ctx.violation('registered function returns a different value', cid, registered_result=show_elem(got_e),
                          blades=[str(b) for b in bad[:6]], **wit)


def recheck_high_precision(ctx, alg, f_plain, f_reg, mode, argspec, to):
    try:
        import mpmath
    except Exception:
        return 'unknown'
    old = mpmath.mp.prec
    mpmath.mp.prec = 400
    try:
        def mkargs():
            return [gen.mv_from(alg, ks, [mpmath.mpf(v.numerator) / v.denominator for v in vs]) for ks, vs in argspec]
        st1, w = ctx.guarded(to * 2, lambda: f_plain(*mkargs()))

        def registered():
            rf = alg.register(f_reg) if mode == 'numeric' else alg.register(symbolic=True)(f_reg)
            return rf(*mkargs())
        st2, g = ctx.guarded(to * 2, registered)
        if st1 != 'ok' or st2 != 'ok':
            return 'unknown'
        we, ge = as_elem(w), as_elem(g)
        for k in set(we) | set(ge):
            a, b = we.get(k, 0), ge.get(k, 0)
            try:
                a, b = mpmath.mpmathify(a), mpmath.mpmathify(b)
            except Exception:
                return 'unknown'
            if abs(a - b) > mpmath.mpf(10) ** -12 * max(1, abs(a), abs(b)):
                return 'differ'
        return 'agree'
    except Exception:
        return 'unknown'
    finally:
        mpmath.mp.prec = old
